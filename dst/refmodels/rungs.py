"""Rung levels as documented for HyperbandScheduler (independent re-implementation).

``rung_levels`` explicit: used as given, a final entry equal to max_t is dropped.
Otherwise ``grace_period * reduction_factor**k`` rounded, for all k with value < max_t,
or ``grace_period + k * rung_increment`` < max_t."""


def hb_rung_levels(grace_period, max_t, reduction_factor=None, rung_increment=None, rung_levels=None):
    if rung_levels is not None:
        lv = [int(x) for x in rung_levels]
        if lv and lv[-1] == max_t:
            lv = lv[:-1]
        return lv
    if reduction_factor is None and rung_increment is None:
        reduction_factor = 3
    out = []
    if reduction_factor is not None:
        k = 0
        while grace_period * float(reduction_factor) ** k < max_t:
            out.append(int(round(grace_period * float(reduction_factor) ** k)))
            k += 1
    else:
        v = grace_period
        while v < max_t:
            out.append(v)
            v += rung_increment
    if out and out[-1] >= max_t:  # a rounded level that hits max_t is not a rung level (all rung levels are < max_t)
        out = out[:-1]
    return out


def levels_from_sched(s):
    return hb_rung_levels(s.get("grace_period", 1), s["max_t"], s.get("reduction_factor"),
                          s.get("rung_increment"), s.get("rung_levels"))
