"""Process bootstrap: fixed PYTHONHASHSEED, import shims, syne_tune from /repo.

Nothing here touches /repo.  The two sys.modules blocks only make the repo's
own ``try/except ImportError`` guards take the path they were written for
(the sandbox wheels of ConfigSpace/yahpo_gym are binary-incompatible with its
NumPy and raise ValueError on import)."""
import os
import sys

HASHSEED = "0"
REPO = os.environ.get("VERIF_REPO", "/repo")
VERIF = os.path.dirname(os.path.dirname(os.path.abspath(__file__)))


def reexec_if_needed(hashseed=None):
    """Re-exec the interpreter so that hash randomisation is fixed."""
    hashseed = hashseed or os.environ.get("VERIF_HASHSEED", HASHSEED)
    if os.environ.get("PYTHONHASHSEED") != hashseed:
        env = dict(os.environ)
        env["PYTHONHASHSEED"] = hashseed
        os.execve(sys.executable, [sys.executable] + sys.argv, env)


_booted = False


def boot():
    """Import syne_tune (from REPO) with shims; silence logging."""
    global _booted
    if _booted:
        return
    _booted = True
    os.environ.setdefault("OMP_NUM_THREADS", "1")
    os.environ.setdefault("OPENBLAS_NUM_THREADS", "1")
    os.environ.setdefault("MKL_NUM_THREADS", "1")
    sys.modules["yahpo_gym"] = None
    sys.modules["ConfigSpace"] = None
    if VERIF not in sys.path:
        sys.path.insert(0, VERIF)
    if REPO != "/repo":
        # scratch copy (sensitivity runs): must shadow the editable install
        sys.path.insert(0, REPO)
    import logging
    import warnings

    warnings.filterwarnings("ignore")
    logging.disable(logging.CRITICAL)
    import syne_tune  # noqa

    path = os.path.realpath(syne_tune.__file__)
    if not path.startswith(os.path.realpath(REPO) + os.sep):
        raise RuntimeError(f"syne_tune imported from {path}, expected under {REPO}")
    logging.disable(logging.CRITICAL)
    preimport()


def preimport():
    """Import in the parent what every forked run needs (children then pay nothing)."""
    import contextlib
    import io

    with contextlib.redirect_stdout(io.StringIO()), contextlib.redirect_stderr(io.StringIO()):
        import pandas  # noqa
        import dill  # noqa
        import syne_tune.optimizer.schedulers  # noqa
        import syne_tune.optimizer.schedulers.synchronous  # noqa
        import syne_tune.optimizer.schedulers.multiobjective  # noqa
        import syne_tune.optimizer.schedulers.median_stopping_rule  # noqa
        import syne_tune.optimizer.schedulers.searchers.regularized_evolution  # noqa
        import syne_tune.backend.simulator_backend.simulator_callback  # noqa
        import syne_tune.blackbox_repository  # noqa
        import syne_tune.blackbox_repository.simulated_tabular_backend  # noqa
        import syne_tune.callbacks.hyperband_remove_checkpoints_callback  # noqa
        try:
            import syne_tune.experiments  # noqa
        except Exception:
            pass
        try:
            import syne_tune.optimizer.schedulers.searchers.gp_fifo_searcher  # noqa
            import syne_tune.optimizer.schedulers.searchers.gp_multifidelity_searcher  # noqa
            import syne_tune.optimizer.schedulers.searchers.hypertune  # noqa
            import syne_tune.optimizer.schedulers.searchers.dyhpo  # noqa
        except Exception:
            pass


def repo_revision():
    import subprocess

    try:
        head = subprocess.run(
            ["git", "-C", REPO, "rev-parse", "HEAD"], capture_output=True, text=True
        ).stdout.strip()
        dirty = subprocess.run(
            ["git", "-C", REPO, "status", "--porcelain", "--untracked-files=no"],
            capture_output=True,
            text=True,
        ).stdout.strip()
        return {"head": head, "dirty": bool(dirty)}
    except Exception:
        return {"head": "?", "dirty": None}
