"""Derived views over a history, shared by the oracles."""
from collections import defaultdict


class Call(dict):
    __getattr__ = dict.get


class Trace:
    def __init__(self, hist):
        self.hist = hist
        self.scen = hist.scen
        self.events = hist.events
        self.world = hist.scen["world"]
        self.sched = []  # paired scheduler calls, in order
        self.backend = []  # paired back-end calls
        self.runs = {}  # (trial, run) -> dict
        self.by_sn = {}  # serial -> (trial, run, idx)
        self.fetches = []
        self.loop_ends = []
        self.cb = []
        self.end = None
        self.begin_seq = None
        open_s = None
        open_b = None
        last_fetch_call = None
        for e in self.events:
            k = e["k"]
            if k == "s.call":
                open_s = Call(m=e["m"], trial=e.get("trial"), result=e.get("result"), config=e.get("config"),
                              s0=e["s"], t0=e["t"], ret=None, exc=None, s1=None)
                self.sched.append(open_s)
            elif k == "s.ret":
                if open_s is not None:
                    open_s["ret"] = e.get("ret")
                    open_s["s1"] = e["s"]
                    open_s["t1"] = e["t"]
                    open_s = None
            elif k == "s.exc":
                if open_s is not None:
                    open_s["exc"] = {"type": e["exc"], "msg": e.get("msg"), "where": e.get("where")}
                    open_s["s1"] = e["s"]
                    open_s = None
            elif k == "b.call":
                if e.get("m") == "fetch_status_results":
                    last_fetch_call = e["s"]
                open_b = Call(e)
                open_b["s0"] = e["s"]
                open_b["t0"] = e["t"]
                open_b["ret"] = None
                open_b["exc"] = None
                open_b["s1"] = None
                self.backend.append(open_b)
            elif k == "b.ret":
                if open_b is not None:
                    open_b["ret"] = e.get("ret")
                    open_b["s1"] = e["s"]
                    open_b["t1"] = e["t"]
                    open_b = None
            elif k == "b.exc":
                if open_b is not None:
                    open_b["exc"] = {"type": e["exc"], "msg": e.get("msg"), "where": e.get("where")}
                    open_b["s1"] = e["s"]
                    open_b = None
            elif k == "w.start":
                self.runs[(e["trial"], e["run"])] = {
                    "trial": e["trial"], "run": e["run"], "s0": e["s"], "t0": e["t"], "frm": e.get("frm"),
                    "to": e.get("to"), "config": e.get("config"), "reports": [], "end": None, "s1": None, "t1": None,
                    "code": None,
                }
            elif k == "w.report":
                r = self.runs.get((e["trial"], e["run"]))
                if r is not None:
                    r["reports"].append(e)
                if "sn" in e:
                    self.by_sn[e["sn"]] = (e["trial"], e["run"], e["idx"])
            elif k in ("w.exit", "w.killed"):
                r = self.runs.get((e["trial"], e["run"]))
                if r is not None and r["end"] is None:
                    r["end"] = "exit" if k == "w.exit" else "killed"
                    r["code"] = e.get("code")
                    r["reason"] = e.get("reason")
                    r["s1"] = e["s"]
                    r["t1"] = e["t"]
            elif k == "cb.fetch":
                # "s": the poll has returned; "sc": the poll began (a poll takes time when reads are slow, F12)
                e["sc"] = last_fetch_call if last_fetch_call is not None else e["s"]
                last_fetch_call = None
                self.fetches.append(e)
            elif k == "cb.loop_end":
                self.loop_ends.append(e)
            elif k == "run.end":
                self.end = e
            elif k == "run.begin":
                self.begin_seq = e["s"]
            if k.startswith("cb."):
                self.cb.append(e)
        self.exception = self.end.get("exc") if self.end else None
        self.last_fetch_seq = self.fetches[-1]["sc"] if self.fetches else -1

    def observed_by(self, seq):
        """Seq of the end of the first loop iteration whose poll came after `seq`
        (the point by which the loop must have acted on whatever happened at `seq`)."""
        f = next((x["s"] for x in self.fetches if x["sc"] > seq), None)
        if f is None:
            return self.events[-1]["s"] if self.events else seq
        le = next((x["s"] for x in self.loop_ends if x["s"] > f), None)
        return le if le is not None else (self.events[-1]["s"] if self.events else seq)

    def report(self, trial, run, idx):
        """The report with position `idx` in the run's own sequence of reports."""
        reps = self.runs[(trial, run)]["reports"]
        if idx < len(reps) and reps[idx].get("idx") == idx:
            return reps[idx]
        return next(r for r in reps if r.get("idx") == idx)

    def runs_of(self, trial):
        return sorted((r for (t, _), r in self.runs.items() if t == trial), key=lambda r: r["run"])

    def keys(self):
        """Structured keys every violation carries (used for known-finding matching)."""
        s = self.scen
        k = s["kind"]
        fam = ("dehb" if k == "dehb" else "sync" if k.startswith("sync") else "hb" if k.startswith("hb_") else
               "fifo" if k.startswith("fifo") else k)
        return {"world": s["world"], "kind": k, "family": fam}
