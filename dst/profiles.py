"""Per-property workload profiles: which worlds / schedulers / faults a check samples."""
from dst import zoo

MF = zoo.MODEL_FREE
MF_SIM = [k for k in MF if k != "pbt"]


def _p(**kw):
    return kw


PROFILES = {
    # property -> list of (weight, profile dict)
    "C01": [(44, _p(world="mem", kinds=MF)), (22, _p(world="sim", kinds=MF_SIM, fault_kinds=["crash"])),
            (14, _p(world="local", kinds=MF, p_async_stop=0.0)),
            # a few long experiments (300-400 trials, duplicates allowed so that the table does not run out): trial ids
            # beyond the small numbers, many promotions per trial
            # (not PASHA: its epsilon update compares all pairs of trials at every report and takes minutes at this size)
            (1, _p(world="sim", kinds=["hb_promotion"], p_fault_free=0.7, fault_kinds=["crash"], max_t_choices=[3, 4, 5, 6, 8, 9, 9, 6, 5, 4],
                   p_no_maxres=0.9, p_allow_dup=1.0, stop_fields=["max_num_trials_started"], min_trials=300, max_trials=400, long_runs=True)), ],
    "C02": [(44, _p(world="mem", kinds=MF, p_latency=0.8, p_no_ckpt_script=0.4)),
            (22, _p(world="sim", kinds=MF_SIM, p_latency=0.8, p_no_ckpt_script=0.4, p_no_maxres=0.6, fault_kinds=["crash"])),
            (14, _p(world="local", kinds=MF, p_latency=0.8, p_no_ckpt_script=0.4, p_noise=0.6, p_async_stop=0.0)),
            # a few long experiments (see C01)
            (1, _p(world="sim", kinds=["hb_promotion"], p_fault_free=0.7, fault_kinds=["crash"], max_t_choices=[3, 4, 5, 6, 8, 9, 9, 6, 5, 4],
                   p_no_maxres=0.9, p_allow_dup=1.0, stop_fields=["max_num_trials_started"], min_trials=300, max_trials=400, long_runs=True,
                   p_latency=0.5)), ],
    "C03": [(6, _p(world="mem", kinds=["hb_stopping", "hb_stopping", "hb_rush_stopping"], p_fault_free=0.6, p_ties=0.2,
                   fault_kinds=["crash"], max_trials=25, p_repeat_level=0.2)), ],
    "C04": [(6, _p(world="mem", kinds=["hb_promotion", "hb_promotion", "hb_pasha", "hb_cost_promotion", "hb_rush_promotion"],
                   p_fault_free=0.6, p_not_honour=0.15, p_no_maxres=0.3, p_ties=0.15, fault_kinds=["crash"], p_nodelay_false=0.05)), ],
    "C05": [(6, _p(world="mem", kinds=["sync_hb", "sync_hb", "sync_hb_custom", "sync_hb_custom", "dehb"], p_fault_free=0.4, p_nan_metric_sync=0.25,
                   fault_kinds=["crash"], p_ties=0.15, p_tiny_space=0.2, p_nodelay_false=0.05)), ],
    "C06": [(6, _p(world="mem", kinds=MF, p_tiny_space=0.35, p_pte=0.7, p_fault_free=0.5, p_restrict=0.25, p_nan_metric=0.3, p_tiny_values=0.2)),
            (1, _p(world="mem", kinds=["fifo_bo", "fifo_bo", "hb_promotion_bo", "hb_stopping_bo"], p_tiny_space=0.8, p_pte=0.7, p_fault_free=0.5,
                   fault_kinds=["crash"], p_restrict=0.3, p_nan_metric=0.6, max_trials=14)), ],
    "C18": [(5, _p(world="local", kinds=MF, p_payload=0.8, p_rejects=0.5, p_noise=0.8, p_extra=0.5, max_trials=10)),
            (3, _p(world="mem", kinds=MF, p_payload=0.8, p_rejects=0.5, p_noise=0.8, p_extra=0.5)), ],
    "C19": [(6, _p(world="mem", kinds=["moasha"], p_fault_free=0.7, p_ties=0.3, fault_kinds=["crash"], p_sparse_moasha=0.3)), ],
    "C14": [(6, _p(world="mem", kinds=["hb_stopping_bo", "hb_promotion_bo", "hb_promotion_bo", "hb_hypertune", "hb_dyhpo", "sync_hb_bo"],
                   p_fault_free=0.5, fault_kinds=["crash"], p_no_ckpt_script=0.4, max_trials=12, p_nodelay_false=0.05, p_early_finish=0.3)), ],
    "C20": [(6, _p(world="mem", kinds=["hb_promotion", "hb_pasha", "hb_cost_promotion", "hb_rush_promotion", "sync_hb", "sync_hb_custom",
                                       "dehb", "pbt", "pbt"], p_delete_ckpt=0.8, p_fault_free=0.6, fault_kinds=["crash"],
                   p_no_ckpt_script=0.1, p_nodelay_false=0.05, p_nan_metric_sync=0.4, p_early_finish_pbt=0.4)),
            (3, _p(world="local", kinds=["hb_promotion", "hb_pasha", "hb_cost_promotion", "hb_rush_promotion", "sync_hb", "sync_hb_custom",
                                         "dehb", "pbt", "pbt"], p_delete_ckpt=0.8, p_fault_free=0.6, fault_kinds=["crash"],
                   p_no_ckpt_script=0.1, p_nodelay_false=0.05, p_async_stop=0.0, p_nan_metric_sync=0.4, p_early_finish_pbt=0.4)), ],
    "C10": [(6, _p(world="sim", kinds=MF_SIM, p_fault_free=0.7, fault_kinds=["crash"], p_latency=0.6)), ],
    "C12": [(6, _p(world="mem", kinds=MF, p_noreport=0.08, p_callback_raise=0.2, p_wait=0.4,
                   stop_fields=["max_num_trials_started", "max_num_trials_finished", "max_num_trials_completed",
                                "max_num_evaluations", "max_wallclock_time", "max_metric_value", "min_metric_value", "max_cost"])),
            (2, _p(world="sim", kinds=MF_SIM, fault_kinds=["crash"], p_wait=0.4, p_callback_raise=0.1,
                   stop_fields=["max_num_trials_started", "max_num_trials_finished", "max_num_trials_completed",
                                "max_num_evaluations", "max_wallclock_time", "max_wallclock_time", "max_metric_value", "min_metric_value"])),
            (2, _p(world="local", kinds=MF, p_noreport=0.08, p_callback_raise=0.2, p_wait=0.4, p_async_stop=0.0)), ],
    "C13": [(6, _p(world="mem", kinds=MF, p_fault_free=0.0, p_latency=0.5)),
            (2, _p(world="sim", kinds=MF_SIM, p_fault_free=0.0, fault_kinds=["crash"])),
            (2, _p(world="local", kinds=MF, p_fault_free=0.0, p_async_stop=0.0)),
            (1, _p(world="mem", kinds=["hb_stopping_bo", "hb_promotion_bo", "hb_hypertune", "sync_hb_bo", "fifo_bo"], p_fault_free=0.0,
                   fault_kinds=["crash"], max_trials=10, p_nodelay_false=0.05)), ],
    "C17": [(6, _p(world="mem", kinds=MF, p_extra=0.7, p_callback_raise=0.1, p_payload=0.3, p_late_key=0.3)),
            (2, _p(world="local", kinds=MF, p_extra=0.7, p_callback_raise=0.1, p_payload=0.3, p_async_stop=0.0, p_late_key=0.3)),
            (2, _p(world="sim", kinds=MF_SIM, fault_kinds=["crash"])), ],
}


def specs_for(prop, seed, n, tier):
    if prop in SPEC_BUILDERS:
        return SPEC_BUILDERS[prop](seed, n, tier)
    plist = PROFILES[prop]
    tot = sum(w for w, _ in plist)
    specs = []
    for i in range(n):
        # deterministic weighted round-robin
        x = (i * 7919) % tot
        for w, prof in plist:
            if x < w:
                break
            x -= w
        sp = {"root": "%s/%s/%s/%d" % (seed, prop, tier, i), "profile": prof}
        if prof.get("long_runs"):
            sp["timeout"] = 240.0
        if prop in DRIVERS:
            sp["driver"] = DRIVERS[prop]
            sp["timeout"] = run_timeout(prop)
        specs.append(sp)
    return specs


SPEC_BUILDERS = {"C16": lambda seed, n, tier: _c16_specs(seed, n, tier), "C13": lambda seed, n, tier: _c13_specs(seed, n, tier)}


# ---------------------------------------------------------------------------
DRIVERS = {"C11": "c11", "C15": "c15"}  # property -> driver module name (twin / paired / crash-restart checks)
MF_SEEDED = [k for k in MF if k != "moasha"]
PROFILES.update({
    "C11": [(6, _p(world="mem", kinds=MF_SEEDED, p_fault_free=0.5, p_latency=0.5, p_nodelay_false=0.03, p_restrict=0.35, p_tiny_space=0.4,
                   p_allow_dup=0.15)),
            (2, _p(world="sim", kinds=[k for k in MF_SEEDED if k != "pbt"], p_fault_free=0.6, fault_kinds=["crash"], sim_fixed_seed=True,
                   p_nodelay_false=0.03)),
            (1, _p(world="mem", kinds=["fifo_bo", "hb_stopping_bo", "hb_promotion_bo", "hb_hypertune", "sync_hb_bo", "hb_dyhpo"], max_trials=8,
                   p_fault_free=0.7, fault_kinds=["crash"], p_nodelay_false=0.0)), ],
    "C15": [(6, _p(world="mem", kinds=[k for k in MF if k != "fifo_grid"] + ["hb_stopping", "hb_promotion", "hb_pasha", "hb_pasha"], p_fault_free=0.6, p_ties=0.0, p_sparse_moasha=0.4,
                   fault_kinds=["crash"], p_nodelay_false=0.03, stop_fields=["max_num_trials_started", "max_num_trials_finished",
                                                                            "max_num_trials_completed", "max_num_evaluations", "max_wallclock_time"])),
            (2, _p(world="sim", kinds=[k for k in MF_SIM if k != "fifo_grid"], p_fault_free=0.7, fault_kinds=["crash"], p_ties=0.0,
                   sim_fixed_seed=True, p_nodelay_false=0.03)),
            # rank-based resource cap of PASHA needs several trials in its top rungs: larger runs
            (1, _p(world="mem", kinds=["hb_pasha", "hb_pasha", "hb_promotion", "hb_rush_promotion"], p_fault_free=0.8, p_ties=0.0, max_trials=45,
                   fault_kinds=["crash"], p_nodelay_false=0.0, stop_fields=["max_num_trials_started"])),
            # multi-objective, per-metric modes, sparse reports and scripts that end between rung levels
            (1, _p(world="mem", kinds=["moasha"], p_fault_free=0.8, p_ties=0.0, p_sparse_moasha=0.7, fault_kinds=["crash"], p_nodelay_false=0.0)), ],
})
FRESH = {"C11": {"hashseed": "5"}}
PROFILES["C16"] = [
    (6, _p(world="mem", kinds=[k for k in MF if k != "moasha"] + ["fifo_random", "fifo_grid", "hb_stopping", "hb_promotion"],
           p_fault_free=0.4, fault_kinds=["crash"], p_nodelay_false=0.0, max_trials=8, p_latency=0.3, p_tiny_space=0.4, p_pte=0.6,
           p_early_removal=0.0, p_allow_dup=0.3, p_restrict=0.2)),
    (2, _p(world="mem", kinds=["fifo_bo", "hb_promotion_bo", "hb_stopping_bo"], p_fault_free=0.7, fault_kinds=["crash"], p_nodelay_false=0.0,
           max_trials=6, p_restrict=0.5, p_tiny_space=0.5, p_pte=0.5, gp_skip_period=True)),
    # GP searchers on enumerable spaces with restrict_configurations (the list shrinks as configurations are used)
    (2, _p(world="mem", kinds=["fifo_bo", "hb_promotion_bo", "hb_stopping_bo"], p_fault_free=0.7, fault_kinds=["crash"], p_nodelay_false=0.0,
           max_trials=6, p_restrict=1.0, p_tiny_space=1.0, simple_finite=True, p_pte=0.5, gp_skip_period=True)),
    # searcher options off the default path: duplicates allowed (failed configurations stay blacklisted), tiny finite spaces, failures
    (2, _p(world="mem", kinds=["fifo_random", "hb_stopping", "hb_promotion", "median", "sync_hb"], p_fault_free=0.0, fault_kinds=["crash"],
           p_nodelay_false=0.0, max_trials=14, p_tiny_space=1.0, p_allow_dup=1.0, p_early_removal=0.0, p_pte=0.3)),
]
DRIVERS["C16"] = "c16"


def _c13_specs(seed, n, tier):
    """C13: random fault plans (all tiers) plus, in the thorough tier, a systematic single-failure sweep:
    for sampled fault-free base scenarios, fail trial i when it is about to report level k, for all (i, k)."""
    import copy
    from dst import runner, zoo

    specs = _generic_specs("C13", seed, n, tier)
    if tier != "thorough":
        return specs
    nbase = 60
    bases = []
    for i in range(nbase):
        prof = dict(PROFILES["C13"][0][1], p_fault_free=1.0, max_trials=8)
        scen = zoo.gen_scenario("%s/C13/sweep/%d" % (seed, i), prof)
        bases.append(scen)
    rs = runner.run_batch([{"scenario": s} for s in bases], ["C13"], nproc=16, timeout=run_timeout("C13"), samples=0)
    sweep = []
    for scen, r in zip(bases, rs):
        if r is None or r.get("harness_error") or r.get("build_error"):
            continue
        ntr = min(r.get("ntrials") or 0, 10)
        max_t = scen["scheduler"]["max_t"]
        for t in range(ntr):
            for lvl in ["first"] + list(range(2, min(max_t, 9) + 1)):
                for run in (None, 1):
                    s2 = copy.deepcopy(scen)
                    s2["faults"] = [{"kind": "crash", "trial": t, "run": run, "level": lvl}]
                    s2["seed"] = scen["seed"]
                    sweep.append({"scenario": s2, "root": "%s|fail t%d l%s r%s" % (scen["seed"], t, lvl, run)})
    return sweep + specs


def _generic_specs(prop, seed, n, tier):
    plist = PROFILES[prop]
    tot = sum(w for w, _ in plist)
    specs = []
    for i in range(n):
        x = (i * 7919) % tot
        for w, prof in plist:
            if x < w:
                break
            x -= w
        specs.append({"root": "%s/%s/%s/%d" % (seed, prop, tier, i), "profile": prof})
    return specs


def _c16_specs(seed, n, tier):
    from dst.drivers import c16

    return c16.build_specs(seed, n, tier)


BUDGET = {
    # property: (quick_n, quick_budget_s, thorough_n, thorough_budget_s)
    "default": (2500, 100, 60000, 1200),
    "C14": (2500, 150, 40000, 1500),
    "C16": (24, 150, 400, 1800),   # number of *scenarios*; each is expanded into H+1 restart points x modes
    "C11": (1500, 150, 40000, 1500),
    "C15": (2000, 120, 60000, 1200),
}


def budget(prop, tier):
    qn, qb, tn, tb = BUDGET.get(prop, BUDGET["default"])
    return (qn, qb) if tier == "quick" else (tn, tb)


def run_timeout(prop):
    return 200.0 if prop in ("C14", "C11", "C16") else 90.0 if prop in ("C15",) else 60.0


def level(prop):
    return "fault_enumeration" if prop == "C16" else "exploration"


RULE_TEXT = {
    "default": (
        "one evaluation = one simulated tuning run: scenario (scheduler kind and options, space, job script, tuner "
        "options, fault plan, latency model) is a pure function of (VERIF_SEED, run index); a run is non-trivial if at "
        "least two trials overlapped in (virtual) time and at least one stop/pause/failure/resume happened; distinct = "
        "distinct interleaving signature (sequence of scheduler notifications with trial ids and decisions plus the "
        "status vectors seen at each poll, time stripped) among the non-trivial runs"),
}

COMPONENTS = {
    "real": ["syne_tune.Tuner.run loop", "schedulers and searchers", "TuningStatus / StoppingCriterion", "StoreResultsCallback",
             "TrialBackend generic logic (W-MEM, W-LOCAL)", "Reporter + retrieve wire format",
             "LocalBackend files/markers/checkpoint dirs (W-LOCAL)", "SimulatorBackend + UserBlackboxBackend + SimulatorCallback (W-SIM)"],
    "stub": ["training processes (scripted jobs stepped by the simulator)", "all clocks/sleeps (virtual time)",
             "subprocess.Popen (W-LOCAL)", "in-memory stdout/checkpoint store (W-MEM)", "wall-clock 'outside time' of the simulator back-end"],
}

ASSUMPTIONS = {
    "default": [
        "sampling, not proof: seeded search over schedules and fault sequences with bounded sizes (<= 25 trials, <= 6 workers, <= 27 levels)",
        "seams are module attributes of syne_tune rebound by the harness; /repo itself is unmodified by the harness",
        "every run executes in a freshly forked process under PYTHONHASHSEED=0; digests are re-checked in a fresh interpreter on every check",
        "known findings (known_findings.json) are suppressed by exact (property, rule, keys) match and truncate the run at their first event",
    ],
}
