from dst.oracles import c01, c02, c03, c04, c05, c06, c10, c12, c13, c14, c17, c18, c19, c20

ORACLES = {"C01": c01.check, "C02": c02.check, "C03": c03.check, "C04": c04.check, "C05": c05.check, "C06": c06.check, "C10": c10.check, "C12": c12.check, "C13": c13.check, "C14": c14.check, "C17": c17.check, "C18": c18.check, "C19": c19.check, "C20": c20.check}

# C13.R5 ("keeps the bookkeeping of the other trials intact"): the C13 check also owns violations of these
# properties' oracles when they occur after the first failure of a run
ALSO = {"C13": ("C01", "C03", "C04", "C05", "C14")}
