from dst.oracles import c01, c02

ORACLES = {"C01": c01.check, "C02": c02.check}
