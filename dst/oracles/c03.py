"""C03 -- stopping-type asynchronous Hyperband decides by the documented quantile rule.

Independent reference model: rung levels from the documented formulas, plain lists
per rung, numpy.quantile with q = level / next level (1 - q for max)."""
import numpy as np

from dst.oracles import V
from dst.refmodels.rungs import levels_from_sched

TYPES = {"hb_stopping": "stopping", "hb_rush_stopping": "rush_stopping", "hb_stopping_bo": "stopping"}


def band(m, c):
    return abs(m - c) <= 1e-9 * max(1.0, abs(m), abs(c))


def is_stopping(scen):
    k = scen["kind"]
    if k in TYPES:
        return True
    return k == "hb_hypertune" and scen["scheduler"].get("hb_type") == "stopping"


def check(tr):
    scen = tr.scen
    if not is_stopping(scen):
        return []
    out = []
    s = scen["scheduler"]
    mode = s["mode"]
    max_t = s["max_t"]
    metric = scen["metrics"][0]
    levels = levels_from_sched(s)
    nxt = levels[1:] + [max_t]
    q_of = {l: l / n for l, n in zip(levels, nxt)}
    num_brackets = min(s["brackets"], len(levels) + 1)
    per_bracket = s.get("rung_system_per_bracket", False)
    rush = scen["kind"] == "hb_rush_stopping"
    nthr = s.get("num_threshold_candidates", 0)
    thr = {}
    rungs = {}  # (system, level) -> list of (trial, metric)
    bracket = {}
    decided = {}
    probes = tr.hist.counters
    for e in tr.events:
        if e["k"] == "s.ret" and e["m"] == "on_trial_add":
            if "bracket" not in e:
                out.append(V("C03", "H.tap_missing", tr, "sampled bracket not recorded (harness tap)", e["s"]))
                return out
            bracket[e["trial"]] = e["bracket"]
    for c in tr.sched:
        if c["m"] != "on_trial_result" or c["exc"] is not None or c["s1"] is None:
            continue
        t = c["trial"]
        res = c["result"]
        r = int(res["epoch"])
        m = res[metric]
        d = c["ret"]
        if t in decided:
            continue  # a report after STOP is not part of the property (the loop does not deliver any)
        b = bracket.get(t, 0)
        if b >= num_brackets:
            out.append(V("C03", "R0.bracket_range", tr, "trial %s assigned to bracket %s of %s" % (t, b, num_brackets), c["s0"]))
            continue
        my_levels = levels[b:]
        sys_id = b if per_bracket else 0
        expect = None  # None = either
        why = ""
        if r >= max_t:
            expect, why = "STOP", "reached max resource"
        elif r in my_levels and t not in [x for x, _ in rungs.get((sys_id, r), [])]:
            lst = rungs.setdefault((sys_id, r), [])
            lst.append((t, m))
            probes["probe.rung_entries"] = probes.get("probe.rung_entries", 0) + 1
            if len(lst) >= 4:
                probes["probe.rung_with_ge4_entries"] = probes.get("probe.rung_with_ge4_entries", 0) + 1
            if len(lst) < 2:
                expect, why = "CONTINUE", "fewer than two entries"
            else:
                vals = np.array([v for _, v in lst], dtype=float)
                q = q_of[r]
                cut = float(np.quantile(vals, q if mode == "min" else 1.0 - q))
                if band(m, cut):
                    expect = None
                    probes["probe.quantile_tie"] = probes.get("probe.quantile_tie", 0) + 1
                else:
                    ok = m <= cut if mode == "min" else m >= cut
                    expect, why = ("CONTINUE" if ok else "STOP"), "metric %r vs quantile %r (q=%.4f, n=%d)" % (m, cut, q, len(lst))
            if rush and expect != "STOP":
                # documented RUSH rule on top: threshold candidates set the bar, others must meet it
                if t < nthr:
                    if expect == "CONTINUE" or (expect is None and d == "CONTINUE"):
                        cur = thr.get((sys_id, r))
                        thr[(sys_id, r)] = m if cur is None else (min(cur, m) if mode == "min" else max(cur, m))
                else:
                    cur = thr.get((sys_id, r))
                    if cur is not None and not band(m, cur):
                        meets = m <= cur if mode == "min" else m >= cur
                        if not meets:
                            expect, why = "STOP", "does not meet RUSH threshold %r" % cur
        else:
            expect, why = "CONTINUE", "not at one of its own rung levels %s (or already recorded)" % (my_levels,)
        if d not in ("CONTINUE", "STOP"):
            out.append(V("C03", "R1.illegal_decision", tr, "stopping-type scheduler answered %r" % (d,), c["s0"]))
        elif expect is not None and d != expect:
            out.append(V("C03", "R1.decision", tr, "trial %s at %d: %s, reference says %s (%s)" % (t, r, d, expect, why),
                         c["s0"], expect=expect, rush=rush))
        if d == "STOP":
            decided[t] = True
    return out
