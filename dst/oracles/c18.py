"""C18 -- metrics reported by a training script arrive unchanged at the tuner (stream half)."""
from dst.oracles import V


def check(tr):
    if tr.world not in ("mem", "local"):
        return []
    out = []
    probes = tr.hist.counters

    def bad(rule, msg, seq, **tags):
        if sum(1 for o in out if o["rule"] == rule) < 2:
            out.append(V("C18", rule, tr, msg, seq, **tags))

    # ---- R1 what reaches the scheduler equals what was reported -----------------------------------
    last_iter = {}
    last_ts = {}
    for c in tr.sched:
        if c["m"] != "on_trial_result" or not c["result"]:
            continue
        res = c["result"]
        sn = res.get("sn")
        t = c["trial"]
        if sn is None or sn not in tr.by_sn:
            bad("R1.unknown_report", "trial %s: a result was delivered that no accepted report matches: %s" % (
                t, {k: v for k, v in list(res.items())[:4]}), c["s0"])
            continue
        rt, run, idx = tr.by_sn[sn]
        rep = tr.report(rt, run, idx)
        for k, v in rep["values"].items():
            if k not in res or res[k] != v:
                bad("R1.value", "trial %s level %s: key %s reported %r, arrived %r" % (t, rep["level"], k, v, res.get(k)), c["s0"], key=k if k.startswith("p_") else "metric")
                break
        extra = set(res) - set(rep["values"]) - {"st_worker_iter", "st_worker_time", "st_worker_timestamp", "st_worker_cost", "total_cost"}
        if extra:
            bad("R1.extra_keys", "trial %s: delivered result carries keys %s that were not reported" % (t, sorted(extra)), c["s0"])
        it, ts = res.get("st_worker_iter"), res.get("st_worker_timestamp")
        key = (t, run)
        if it is None or ts is None:
            bad("R1.counter_missing", "trial %s: report counter / time stamp missing" % t, c["s0"])
        else:
            if key in last_iter and it <= last_iter[key]:
                bad("R1.counter_not_increasing", "trial %s run %d: report counter %s after %s" % (t, run, it, last_iter[key]), c["s0"])
            if key in last_ts and ts < last_ts[key]:
                bad("R1.timestamp_decreasing", "trial %s run %d: time stamp %r after %r" % (t, run, ts, last_ts[key]), c["s0"])
            last_iter[key], last_ts[key] = it, ts
        probes["probe.reports_compared"] = probes.get("probe.reports_compared", 0) + 1
    # ---- R2 every prefix of the stream parses to a prefix of the reports ----------------------------
    for b in tr.backend:
        if b["m"] != "fetch_status_results" or "parsed" not in b:
            continue
        for t, n in b["parsed"].items():
            m = b["emitted"].get(t, b["emitted"].get(str(t)))
            probes["probe.stream_prefix_parses"] = probes.get("probe.stream_prefix_parses", 0) + 1
            if n != m:
                bad("R2.prefix_parse", "trial %s: the stream holds %s reports but parses to %s" % (t, m, n), b["s0"])
    # ---- R3 reports the protocol must reject are rejected at the reporting side ----------------------
    for e in tr.events:
        if e["k"] != "w.reject":
            continue
        probes["probe.rejected_report_attempts"] = probes.get("probe.rejected_report_attempts", 0) + 1
        if not e["raised"]:
            bad("R3.not_rejected", "trial %s level %s: a report with %s was accepted by the reporter" % (e["trial"], e["level"], e["kind"]),
                e["s"], kind=e["kind"])
        elif e.get("wrote_report"):
            bad("R3.stream_corrupted", "trial %s level %s: rejected report (%s) still left a metric line on the stream" % (
                e["trial"], e["level"], e["kind"]), e["s"], kind=e["kind"])
    return out
