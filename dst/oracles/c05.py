"""C05 -- synchronous Hyperband fills rungs exactly and promotes exactly the top trials.

Acceptor for the documented bracket policy, fed the real event stream."""
import math

from dst.oracles import V
from dst.workers import MAXRES_ATTR

SYNC = {"sync_hb", "sync_hb_custom", "sync_hb_bo"}


def band(a, b):
    return abs(a - b) <= 1e-9 * max(1.0, abs(a), abs(b))


def geometric(min_r, max_r, rf, num_brackets=None):
    """Documented geometric rung systems: n(r,s) = ceil((s_max+1)/r_num * rf^(r_num-r-1))."""
    s_max = 0
    while min_r * float(rf) ** s_max < max_r:
        s_max += 1
    if s_max <= 0:
        return [[(1, max_r)]]
    nb = s_max + 1 if num_brackets is None else min(num_brackets, s_max + 1)
    out = []
    for s in range(nb):
        r_num_m1 = s_max - s
        pre = (s_max + 1) / (r_num_m1 + 1)
        rungs = []
        for r in range(r_num_m1):
            rungs.append((int(math.ceil(pre * float(rf) ** (r_num_m1 - r) - 1e-12)), int(round(min_r * float(rf) ** (r + s)))))
        rungs.append((int(math.ceil(pre - 1e-12)), max_r))
        out.append(rungs)
    return out


class Bracket:
    def __init__(self, bid, rungs):
        self.id = bid
        self.rungs = rungs  # list of (size, level)
        self.cur = 0
        self.handed = 0  # slots of the current rung handed out
        self.results = {}  # trial -> metric (nan for failed) in current rung
        self.pending = set()
        self.allowed = None  # for rungs > 0: (must, may) trial sets
        self.resumed = set()
        self.prev_results = None

    def complete(self):
        return self.cur >= len(self.rungs)

    def size(self):
        return self.rungs[self.cur][0]

    def level(self):
        return self.rungs[self.cur][1]

    def has_free(self):
        return not self.complete() and self.handed < self.size()


def check(tr):
    scen = tr.scen
    kind = scen["kind"]
    dehb = kind == "dehb"
    if kind not in SYNC and not dehb:
        return []
    out = check_dehb(tr) if dehb else []
    s = scen["scheduler"]
    mode = s["mode"]
    metric = scen["metrics"][0]
    info_rungs = tr.hist.final.get("bracket_rungs")
    if info_rungs is None:
        return [V("C05", "H.tap_missing", tr, "bracket_rungs of the scheduler not recorded", None)]
    systems = [[(int(a), int(b)) for a, b in br] for br in info_rungs]
    if kind != "sync_hb_custom":
        ref = geometric(s["grace_period"], s["max_t"], s["reduction_factor"], s.get("brackets"))
        if dehb:
            # documented: all DEHB brackets derive from the first one, rung sizes depend on the level only
            first = geometric(s["grace_period"], s["max_t"], s["reduction_factor"], None)[0]
            ref = [first[o:] for o in range(len(first) if s.get("brackets") is None else min(s["brackets"], len(first)))]
        if ref != systems:
            out.append(V("C05", "R0.rung_system", tr, "geometric rung system %s differs from the documented formula %s" % (systems, ref), None))
            return out
    noff = len(systems)
    use_maxres = s["use_maxres"]
    brackets = [Bracket(0, systems[0])]
    primary = 0
    slot_of = {}  # trial -> bracket id (pending job)
    probes = tr.hist.counters
    space_exhausted = False

    def bad(rule, msg, seq, **tags):
        out.append(V("C05", rule, tr, msg, seq, **tags))

    def open_new():
        bid = len(brackets)
        brackets.append(Bracket(bid, systems[bid % noff]))
        probes["probe.sync_new_bracket_opened"] = probes.get("probe.sync_new_bracket_opened", 0) + 1
        return brackets[bid]

    def next_job():
        for b in brackets[primary:]:
            if b.has_free():
                return b
        return open_new()

    def record(b, t, val, seq):
        nonlocal primary
        if t in b.results:
            bad("R2.slot_twice", "trial %s delivers a second result for rung %d of bracket %d" % (t, b.cur, b.id), seq)
            return
        b.results[t] = val
        b.pending.discard(t)
        if len(b.results) == b.size() and b.handed == b.size():
            # rung complete
            if b.cur > 0 and b.allowed is not None:
                must, may = b.allowed
                if not must <= b.resumed:
                    bad("R3.top_not_promoted", "bracket %d rung %d: trials %s belong to the top list but were not resumed" % (
                        b.id, b.cur, sorted(must - b.resumed)), seq)
            prev = dict(b.results)
            b.cur += 1
            b.handed = 0
            b.results = {}
            b.resumed = set()
            if not b.complete():
                k = b.size()
                valid = sorted(((v, t) for t, v in prev.items() if not (isinstance(v, float) and math.isnan(v))),
                               reverse=(mode == "max"))
                failed = {t for t, v in prev.items() if isinstance(v, float) and math.isnan(v)}
                if len(valid) >= k:
                    vk = valid[k - 1][0]
                    must = {t for v, t in valid if not band(v, vk) and ((v < vk) if mode == "min" else (v > vk))}
                    may = {t for v, t in valid if band(v, vk)}
                else:
                    must = {t for _, t in valid}
                    may = set(failed)
                    if failed:
                        probes["probe.sync_failed_fill_next_rung"] = probes.get("probe.sync_failed_fill_next_rung", 0) + 1
                b.allowed = (must, may) if not (dehb and b.id > 0) else None  # DEHB: later brackets evolve new trials
            probes["probe.sync_rungs_completed"] = probes.get("probe.sync_rungs_completed", 0) + 1
            if dehb:
                probes["probe.dehb_rungs_completed"] = probes.get("probe.dehb_rungs_completed", 0) + 1
                if b.id > 0:
                    probes["probe.dehb_later_bracket_rungs_completed"] = probes.get("probe.dehb_later_bracket_rungs_completed", 0) + 1
            if b.id == primary:
                while brackets[primary].complete() and primary < len(brackets) - 1:
                    primary += 1
                if brackets[primary].complete():
                    primary = open_new().id

    nsug = 0
    for c in tr.sched:
        if c["exc"] is not None:
            break
        if c["s1"] is None:
            continue
        m, t = c["m"], c["trial"]
        if m == "suggest":
            ret = c["ret"]
            if ret is None:
                # legal only when the searcher cannot produce a configuration any more
                space_exhausted = True
                b = next_job()
                if b.cur == 0 or dehb:
                    # the library marks the slot as failed so that the bracket is not blocked
                    b.handed += 1
                    record(b, "none%d" % c["s0"], float("nan"), c["s0"])
                probes["probe.sync_suggest_none"] = probes.get("probe.sync_suggest_none", 0) + 1
                continue
            nsug += 1
            b = next_job()
            if ret["new"]:
                if b.cur != 0 and not (dehb and b.id > 0):
                    bad("R4.new_instead_of_resume", "new trial %s started while bracket %d waits to resume promoted trials %s" % (
                        t, b.id, sorted((b.allowed[0] | b.allowed[1]) - b.resumed)), c["s0"])
                    continue
                lvl = b.level()
                if use_maxres and (ret["config"] or {}).get(MAXRES_ATTR) != lvl:
                    bad("R4.level", "new trial %s told to run to %r, rung level of bracket %d (offset %d) is %d" % (
                        t, (ret["config"] or {}).get(MAXRES_ATTR), b.id, b.id % noff, lvl), c["s0"])
                b.handed += 1
                b.pending.add(t)
                slot_of[t] = b.id
            else:
                T = ret["ckpt"]
                if b.cur == 0 or (dehb and b.id > 0):
                    bad("R4.resume_instead_of_new", "trial %s resumed while bracket %d has free slots for new trials" % (T, b.id), c["s0"])
                    continue
                must, may = b.allowed
                if T in b.resumed:
                    bad("R3.resumed_twice", "trial %s resumed twice into rung %d of bracket %d" % (T, b.cur, b.id), c["s0"])
                elif T not in must and T not in may:
                    bad("R3.not_in_top", "trial %s resumed to level %d but is not among the best %d of the completed rung of bracket %d" % (
                        T, b.level(), b.size(), b.id), c["s0"])
                if use_maxres and (ret["config"] or {}).get(MAXRES_ATTR) != b.level():
                    bad("R4.level", "trial %s resumed to %r, next rung level is %d" % (T, (ret["config"] or {}).get(MAXRES_ATTR), b.level()), c["s0"])
                b.resumed.add(T)
                b.handed += 1
                b.pending.add(T)
                slot_of[T] = b.id
        elif m == "on_trial_result":
            r = int(c["result"]["epoch"])
            d = c["ret"]
            if t not in slot_of:
                if d != "STOP":
                    bad("R5.decision", "result of trial %s which holds no pending job answered %s (expected STOP)" % (t, d), c["s0"])
                continue
            b = brackets[slot_of[t]]
            lvl = b.level()
            if r < lvl:
                if d != "CONTINUE":
                    bad("R5.decision", "trial %s at %d below its rung level %d: %s" % (t, r, lvl, d), c["s0"])
            elif r == lvl:
                exp = "STOP" if (dehb and b.id > 0) else "PAUSE"  # DEHB pauses (and later resumes) only in its first bracket
                if d != exp:
                    bad("R5.decision", "trial %s reached its rung level %d: %s (expected %s)" % (t, lvl, d, exp), c["s0"])
                del slot_of[t]
                record(b, t, float(c["result"][metric]), c["s0"])
        elif m == "on_trial_error":
            if t in slot_of:
                b = brackets[slot_of.pop(t)]
                record(b, t, float("nan"), c["s0"])
                probes["probe.sync_failed_job_recorded"] = probes.get("probe.sync_failed_job_recorded", 0) + 1
    return out


def check_dehb(tr):
    out = []
    s = tr.scen["scheduler"]
    milestone = {}
    for c in tr.sched:
        if c["exc"] is not None:
            if c["m"] == "suggest":
                out.append(V("C05", "R6.suggest_raises", tr, "DEHB suggest raised %s (%s)" % (c["exc"]["type"], c["exc"]["where"]), c["s0"],
                             exc=c["exc"]["type"], where=c["exc"]["where"]))
            break
        if c["s1"] is None:
            continue
        if c["m"] == "suggest" and c["ret"] is not None:
            cfg = c["ret"]["config"] or {}
            t = c["trial"] if c["ret"]["new"] else c["ret"]["ckpt"]
            if s["use_maxres"] and MAXRES_ATTR in cfg:
                milestone[t] = int(cfg[MAXRES_ATTR])
        elif c["m"] == "on_trial_result":
            t = c["trial"]
            r = int(c["result"]["epoch"])
            ms = milestone.get(t)
            d = c["ret"]
            if ms is not None and r < ms and d != "CONTINUE":
                out.append(V("C05", "R5.decision", tr, "DEHB trial %s at %d below its level %d: %s" % (t, r, ms, d), c["s0"]))
            if ms is not None and r == ms and d not in ("PAUSE", "STOP"):
                out.append(V("C05", "R5.decision", tr, "DEHB trial %s reached its level %d: %s" % (t, ms, d), c["s0"]))
            if ms is not None and r == ms:
                milestone.pop(t, None)
    return out
