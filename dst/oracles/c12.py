"""C12 -- termination on the stopping criterion; nothing left running; counters."""
from dst.oracles import V

COUNT_FIELDS = {"max_num_trials_started": "started", "max_num_trials_completed": "completed",
                "max_num_trials_finished": "finished"}


def documented_exception(tr):
    """Classify the exception that ended run(): returns (documented?, tags)."""
    e = tr.end
    if e is None or not e.get("exc"):
        return True, {}
    typ, msg, where = e["exc"], e.get("msg") or "", e.get("where")
    if e.get("injected"):
        return True, {}
    if typ == "ValueError" and where == "tuner.py:_handle_failure":
        return True, {"limit": True}
    if typ == "ValueError" and "completed and no metrics got observed" in msg:
        # documented only if some trial truly exited 0 without ever reporting
        for (t, run), r in tr.runs.items():
            if r["end"] == "exit" and r["code"] == 0 and not any(x["reports"] for x in tr.runs_of(t)):
                return True, {}
        return False, {"exc": typ, "where": where}
    return False, {"exc": typ, "where": where}


def criterion_reference(stop, le, world):
    """The documented stopping criterion (an OR of atomic, strict comparisons) evaluated on the status figures of one
    loop end.  In a simulated experiment wall-clock time is the simulated time stamp of the results."""
    W = stop.get("max_wallclock_time")
    if W is not None:
        if world == "sim":
            tt = (le.get("maxm") or {}).get("st_tuner_time")
            if tt is not None and tt > W:
                return "max_wallclock_time"
        elif le["wall"] > W:
            return "max_wallclock_time"
    for field, key in (("max_num_trials_started", "started"), ("max_num_trials_completed", "completed"),
                       ("max_num_trials_finished", "finished"), ("max_num_evaluations", "nevals"), ("max_cost", "cost")):
        K = stop.get(field)
        if K is not None and le.get(key) is not None and le[key] > K:
            return field
    if le["nevals"] > 0:
        for name, K in (stop.get("max_metric_value") or {}).items():
            v = (le.get("maxm") or {}).get(name)
            if v is not None and v > K:
                return "max_metric_value"
        for name, K in (stop.get("min_metric_value") or {}).items():
            v = (le.get("minm") or {}).get(name)
            if v is not None and v < K:
                return "min_metric_value"
    return None


def check(tr):
    out = []
    scen = tr.scen
    t = scen["tuner"]
    nW = t["n_workers"]
    wait = t["wait_trial_completion_when_stopping"]
    les = tr.loop_ends
    # ---- R6: the criterion the loop consults says what the user's criterion says -------------
    for le in les:
        if not isinstance(le["crit"], bool) or "maxm" not in le:
            continue
        ref = criterion_reference(t["stop"], le, tr.world)
        if (ref is not None) != le["crit"]:
            out.append(V("C12", "R6.criterion_value", tr, "stopping criterion %s evaluates to %s at a loop end where the documented rule gives %s (%s)" % (
                {k: v for k, v in t["stop"].items()}, le["crit"], ref is not None, ref or "no atomic criterion holds"), le["s"], field=ref))
            break
    # ---- first loop end at which the loop must stop -----------------------------
    first = None
    for le in les:
        if le["crit"] is True or le["nfailed"] > t["max_failures"]:
            first = le
            break
    # exhaustion: first suggest that returned None
    exhausted = next((c for c in tr.sched if c["m"] == "suggest" and c["exc"] is None and c["s1"] is not None and c["ret"] is None), None)
    if first is not None:
        later_loops = [e for e in tr.events if e["k"] == "cb.loop_start" and e["s"] > first["s"]]
        if later_loops and not wait:
            out.append(V("C12", "R1.runs_on", tr, "loop body ran again after the stopping criterion held at a loop end", later_loops[0]["s"]))
        if wait:
            # may only drain: every later poll must still have running trials
            for b in tr.backend:
                if b["m"] == "fetch_status_results" and b["s0"] > first["s"] and not b.get("trials"):
                    out.append(V("C12", "R1.runs_on", tr, "loop kept running after criterion with nothing left to wait for", b["s0"]))
                    break
        for b in tr.backend:
            if b["m"] in ("start_trial", "resume_trial") and b["s0"] > first["s"]:
                out.append(V("C12", "R2.start_after_stop", tr, "%s after the stopping criterion held" % b["m"], b["s0"], wait=wait))
                break
        # R3 overshoot of count budgets, judged at the first loop end where the criterion holds
        for field, key in COUNT_FIELDS.items():
            K = t["stop"].get(field)
            if K is not None and first[key] > K + 1 + nW:
                out.append(V("C12", "R3.overshoot", tr, "%s=%d: %d at the first loop end where the criterion holds (n_workers=%d)" % (
                    field, K, first[key], nW), first["s"], field=field))
    elif tr.exception is None and exhausted is None and les:
        # loop ended although neither criterion nor exhaustion held at any loop end
        out.append(V("C12", "R1.early_exit", tr, "run() returned although the criterion never held at a loop end", tr.end and tr.end["s"]))
    if exhausted is not None:
        for b in tr.backend:
            if b["m"] in ("start_trial", "resume_trial") and b["s0"] > exhausted["s1"]:
                out.append(V("C12", "R2.start_after_exhaustion", tr, "%s after the searcher reported exhaustion" % b["m"], b["s0"]))
                break
    # ---- R5 run() raises only for documented reasons --------------------------------
    ok, tags = documented_exception(tr)
    if not ok:
        out.append(V("C12", "R5.unexpected_exception", tr, "run() raised %s: %s (at %s)" % (
            tr.end["exc"], (tr.end.get("msg") or "")[:120], tr.end.get("where")), tr.end["s"], **tags))
    elif tags.get("limit"):
        # failure limit: must name a truly failed (or externally stopped) trial and the limit must be exceeded
        msg = tr.end.get("msg") or ""
        try:
            tid = int(msg.split("-")[1].split()[0])
        except Exception:
            tid = None
        truly = tid is not None and any(
            (r["end"] == "exit" and r["code"] not in (0, None)) for r in tr.runs_of(tid))
        nf = tr.hist.final.get("status", {}).get("failed", 0)
        if not truly:
            out.append(V("C12", "R5.wrong_failed_trial", tr, "failure-limit error names trial %s which did not fail" % tid, tr.end["s"]))
        if nf <= t["max_failures"]:
            out.append(V("C12", "R5.limit_not_exceeded", tr, "failure-limit error with %d failures <= max_failures=%d" % (nf, t["max_failures"]), tr.end["s"]))
    if tr.end is not None and tr.end.get("injected") is False and tr.scen.get("callback_raise") and \
            any(e["k"] == "fault" and e.get("kind") == "inject_exc" for e in tr.events) and tr.end.get("exc") is None:
        out.append(V("C12", "R5.exception_swallowed", tr, "an exception thrown into the loop did not propagate out of run()", tr.end["s"]))
    # ---- R4 after run() returned or raised ----------------------------------------------
    fin = tr.hist.final
    end_seq = tr.end["s"] if tr.end else None
    if tr.world in ("mem", "local") and tr.end is not None:
        alive = fin.get("alive_after")
        if alive:
            out.append(V("C12", "R4.left_running", tr, "workers of trials %s still alive after run() ended" % alive, end_seq,
                         raised=tr.exception is not None))
    if tr.end is not None and not any(b["m"] == "stop_all" for b in tr.backend):
        out.append(V("C12", "R4.no_stop_all", tr, "stop_all was not called", end_seq))
    st = fin.get("status")
    if st is not None and tr.end is not None:
        last = st["last_seen"]
        cnt = lambda names: sum(1 for v in last.values() if v in names)
        exp = {"started": len(last), "completed": cnt({"Completed"}), "failed": cnt({"Failed"}),
               "finished": cnt({"Completed", "Stopped", "Stopping", "Failed"}), "running": cnt({"InProgress"})}
        for k, v in exp.items():
            if st[k] != v:
                out.append(V("C12", "R4.counter_mismatch", tr, "num_trials_%s=%s but %s trials are in that state" % (k, st[k], v), end_seq))
        # the status table against what really happened: a trial whose job was alive when stop_all was called has been
        # stopped by it and counts as stopped (finished), whatever state the table held for it before
        sa = next((b for b in tr.backend if b["m"] == "stop_all"), None)
        if sa is not None and tr.exception is None and tr.world in ("mem", "local"):
            for tt in sorted({t_ for (t_, _) in tr.runs}):
                r = tr.runs_of(tt)[-1]
                if r["s0"] < sa["s0"] and (r["s1"] is None or r["s1"] > sa["s0"]):
                    seen = last.get(tt, last.get(str(tt)))
                    if seen not in ("Stopped", "Stopping"):
                        out.append(V("C12", "R4.status_table", tr, "trial %s was running when the run ended and was stopped by stop_all, the status table says %s" % (
                            tt, seen), end_seq, seen=seen))
                        break
        if st["running"] != 0:
            out.append(V("C12", "R4.running_after_end", tr, "%d trials still counted as running after run()" % st["running"], end_seq))
        nstarted = sum(1 for b in tr.backend if b["m"] == "start_trial" and b["exc"] is None and b["s1"] is not None)
        inflight = 0
        cr = tr.scen.get("callback_raise")
        if cr and cr["hook"] == "on_start_trial" and any(e["k"] == "fault" and e.get("kind") == "inject_exc" for e in tr.events):
            inflight = 1  # the injected exception hit between start_trial and the status update of that trial
        if st["started"] not in (nstarted, nstarted - inflight):
            out.append(V("C12", "R4.counter_mismatch", tr, "num_trials_started=%d, %d trials were started" % (st["started"], nstarted), end_seq))
        # every trial the back-end showed as Failed in a poll counts as failed (whatever the scheduler decided in that poll)
        last_status = {}
        for f in (tr.fetches[:-1] if tr.exception is not None else tr.fetches):
            last_status.update({int(t_): s_ for t_, s_ in f["status"].items()})
        resumed_later = {b["trial"] for b in tr.backend if b["m"] == "resume_trial"}
        seen_failed = {t_ for t_, s_ in last_status.items() if s_ == "Failed" and t_ not in resumed_later}
        if st["failed"] < len(seen_failed):
            out.append(V("C12", "R4.failures_not_counted", tr, "trials %s were observed as Failed, num_trials_failed=%d" % (
                sorted(seen_failed), st["failed"]), end_seq))
        # ground truth for failed: trials whose observed end was an error
        errs = {c["trial"] for c in tr.sched if c["m"] == "on_trial_error"}
        truly_failed = {tt for tt in errs if any(r["end"] == "exit" and r["code"] not in (0, None) for r in tr.runs_of(tt))}
        if tr.world in ("mem", "local") and st["failed"] > len(truly_failed):
            out.append(V("C12", "R4.counter_mismatch", tr, "num_trials_failed=%d but only %d trials truly failed" % (st["failed"], len(truly_failed)), end_seq))
    # results stored
    rows = fin.get("rows")
    csv = fin.get("csv")
    if rows is not None and tr.end is not None and tr.begin_seq is not None:
        if rows and (csv is None or "error" in (csv or {})):
            out.append(V("C12", "R4.results_not_stored", tr, "results file missing/unreadable after run(): %s" % (csv,), end_seq,
                         raised=tr.exception is not None))
        elif rows and len(csv["rows"]) != len(rows):
            out.append(V("C12", "R4.results_not_stored", tr, "results file holds %d rows, %d were delivered" % (len(csv["rows"]), len(rows)), end_seq,
                         raised=tr.exception is not None))
    return out
