"""C13 -- trial failures are contained."""
from dst.oracles import V
from dst.oracles.c12 import documented_exception

NOREPEAT_KINDS = {"fifo_random", "fifo_grid", "fifo_bo", "hb_stopping", "hb_promotion", "hb_pasha", "hb_cost_promotion",
                  "hb_rush_stopping", "hb_rush_promotion", "hb_stopping_bo", "hb_promotion_bo", "hb_hypertune",
                  "sync_hb", "sync_hb_custom", "sync_hb_bo", "median"}
DECISIONS = ("CONTINUE", "PAUSE", "STOP")


def first_failure_seq(tr):
    for c in tr.sched:
        if c["m"] == "on_trial_error":
            return c["s0"]
    for e in tr.events:
        if e["k"] == "fault" and e.get("kind") in ("crash", "extstop"):
            return e["s"]
    return None


def hp_part(tr, config):
    if config is None:
        return None
    return tuple((k, repr(config.get(k))) for k in sorted(tr.scen["space_keys"]))


def check(tr):
    out = []
    scen = tr.scen
    ff = first_failure_seq(tr)
    if ff is None:
        return out
    sched_stopped = set()
    decisions = {}
    for c in tr.sched:
        if c["m"] == "on_trial_result" and c["exc"] is None and c["ret"] == "STOP":
            sched_stopped.add(c["trial"])
    # ---- R1: one on_trial_error per failure the loop observed -----------------------------
    fetch_bounds = [f["s"] for f in tr.fetches] + [float("inf")]
    err_calls = [c for c in tr.sched if c["m"] == "on_trial_error"]
    failed_seen = set()
    for i, f in enumerate(tr.fetches):
        lo, hi = fetch_bounds[i], fetch_bounds[i + 1]
        for t, status in f["status"].items():
            t = int(t)
            observed = status == "Failed" or (status == "Stopped" and t not in sched_stopped)
            n = sum(1 for c in err_calls if c["trial"] == t and lo < c["s0"] < hi)
            raised_inside = tr.exception is not None and i == len(tr.fetches) - 1
            if observed and n != 1 and not raised_inside:
                out.append(V("C13", "R1.error_notifications", tr, "trial %s observed as %s in one poll, on_trial_error called %d times" % (
                    t, status, n), f["s"], n=n))
            if observed:
                failed_seen.add(t)
            if not observed and n > 0:
                out.append(V("C13", "R1.spurious_error", tr, "on_trial_error(%s) although the poll showed status %s" % (t, status), f["s"]))
    # ---- R2: scheduler / back-end calls do not raise, decisions are legal -------------------
    for c in tr.sched:
        if c["s0"] < ff:
            continue
        if c["exc"] is not None and c["exc"]["type"] == "SchedulerHang":
            out.append(V("C13", "R6.scheduler_hangs", tr, "%s(%s) did not return (%s)" % (c["m"], c["trial"], c["exc"]["where"]),
                         c["s0"], where=c["exc"]["where"], m=c["m"]))
            break
        if c["exc"] is not None:
            out.append(V("C13", "R2.scheduler_raises", tr, "%s(%s) raised %s: %s" % (c["m"], c["trial"], c["exc"]["type"], (c["exc"]["msg"] or "")[:100]),
                         c["s0"], exc=c["exc"]["type"], where=c["exc"]["where"], m=c["m"]))
            break
        if c["m"] == "on_trial_result" and c["ret"] not in DECISIONS:
            out.append(V("C13", "R2.illegal_decision", tr, "on_trial_result returned %r" % (c["ret"],), c["s0"]))
    for b in tr.backend:
        if b["s0"] >= ff and b["exc"] is not None and b["m"] in ("resume_trial", "start_trial", "pause_trial", "stop_trial"):
            out.append(V("C13", "R2.backend_raises", tr, "%s(%s) raised %s: %s" % (b["m"], b.get("trial"), b["exc"]["type"], (b["exc"]["msg"] or "")[:100]),
                         b["s0"], exc=b["exc"]["type"], m=b["m"]))
            break
    ok, tags = documented_exception(tr)
    nfailed = tr.hist.final.get("status", {}).get("failed", 0)
    if not ok and tr.end["s"] > ff:
        out.append(V("C13", "R2.run_raises", tr, "run() raised %s: %s (at %s) with %d failures, max_failures=%d" % (
            tr.end["exc"], (tr.end.get("msg") or "")[:100], tr.end.get("where"), nfailed, scen["tuner"]["max_failures"]),
            tr.end["s"], **tags))
    # ---- R3: above the limit -> error that names a failed trial ------------------------------
    if tags.get("limit"):
        msg = tr.end.get("msg") or ""
        try:
            tid = int(msg.split("-")[1].split()[0])
        except Exception:
            tid = None
        if tid not in failed_seen:
            out.append(V("C13", "R3.names_wrong_trial", tr, "failure-limit error names trial %s; failed trials seen: %s" % (tid, sorted(failed_seen)), tr.end["s"]))
    elif tr.exception is None and tr.end is not None and nfailed > scen["tuner"]["max_failures"]:
        out.append(V("C13", "R3.limit_ignored", tr, "%d failures > max_failures=%d but run() returned normally" % (nfailed, scen["tuner"]["max_failures"]), tr.end["s"]))
    # ---- R4: failed trial is not resumed / its configuration not suggested again -------------
    errored = {}  # trial -> seq of error notification (excluding the tolerated paused-and-crashed case)
    removed_pause = {}
    configs = {}
    for c in tr.sched:
        if c["m"] == "on_trial_add":
            configs[c["trial"]] = c["config"]
        if c["m"] == "on_trial_result" and c["exc"] is None and c["ret"] == "PAUSE":
            removed_pause[c["trial"]] = c["s0"]
        if c["m"] == "on_trial_error":
            t = c["trial"]
            # paused in the same poll: the back-end shows the trial as paused -> resuming it is not judged here
            f_lo = max([f["s"] for f in tr.fetches if f["s"] < c["s0"]] or [-1])
            if removed_pause.get(t, -1) > f_lo:
                continue
            errored[t] = c["s0"]
    for b in tr.backend:
        if b["m"] == "resume_trial" and b.get("trial") in errored and b["s0"] > errored[b["trial"]]:
            out.append(V("C13", "R4.failed_trial_resumed", tr, "trial %s failed and was later resumed" % b["trial"], b["s0"]))
            break
    if scen["kind"] in NOREPEAT_KINDS:
        # ("when it promises no repeats": a searcher configured with allow_duplicates=True still documents that the
        # configuration of a *failed* trial is not suggested again - its exclusion list exists for that alone)
        failed_hp = {hp_part(tr, configs.get(t)): (t, s) for t, s in errored.items() if configs.get(t) is not None}
        for c in tr.sched:
            if c["m"] == "suggest" and c["exc"] is None and c["ret"] and c["ret"]["new"]:
                hp = hp_part(tr, c["ret"]["config"])
                if hp in failed_hp and c["s0"] > failed_hp[hp][1]:
                    out.append(V("C13", "R4.failed_config_resuggested", tr, "configuration of failed trial %s suggested again for trial %s" % (
                        failed_hp[hp][0], c["trial"]), c["s0"]))
                    break
    # ---- R6: bounded progress -------------------------------------------------------------------
    out.extend(stall(tr))
    return out


def stall(tr):
    """The run ended on the safety-net wall clock while nothing happened for the whole second half."""
    les = tr.loop_ends
    if not les or tr.exception is not None:
        return []
    stop = tr.scen["tuner"]["stop"]
    net = 150.0 * tr.scen["script"]["pace"]["mean"]
    if stop.get("max_wallclock_time") != net or len(stop) < 2:
        return []
    T = les[-1]["t"]
    if T < net:
        return []
    acts = [c for c in tr.sched if c["m"] in ("on_trial_result", "on_trial_add") and c["t0"] > T / 2]
    acts += [b for b in tr.backend if b["m"] in ("start_trial", "resume_trial") and b["t0"] > T / 2]
    if not acts:
        return [V("C13", "R6.no_progress", tr, "no trial started/resumed and no result delivered during the second half of the run (t > %.1f)" % (T / 2), les[-1]["s"])]
    return []
