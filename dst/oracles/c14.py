"""C14 -- multi-fidelity surrogate data: each observation once, only live pending entries."""
from dst.oracles import V
from dst.refmodels.rungs import levels_from_sched

MF_GP = {"hb_stopping_bo", "hb_promotion_bo", "hb_hypertune", "hb_dyhpo", "sync_hb_bo"}


def close(a, b):
    return abs(a - b) <= 1e-9 * max(1.0, abs(a), abs(b))


def check(tr):
    scen = tr.scen
    kind = scen["kind"]
    if kind not in MF_GP:
        return []
    out = []
    s = scen["scheduler"]
    mode = s["mode"]
    metric = scen["metrics"][0]
    max_t = s["max_t"]
    sync = kind == "sync_hb_bo"
    policy = s.get("searcher_data", "rungs")
    rung_levels = set(levels_from_sched(s)) | {max_t} if not sync else None
    base_levels = levels_from_sched(s) if not sync else []
    bracket_of = {}
    decided_at = {}
    resume_from = {}
    final_level = {}
    rets = {e["s"]: e for e in tr.events if e["k"] == "s.ret"}
    reported = {}  # trial -> {level: metric}
    delivered = {}  # trial -> list of levels delivered while the trial was live (in order)
    live = set()  # trials running in the scheduler's view
    decided = set()
    sync_ms = {}
    probes = tr.hist.counters
    prev_pend = None

    def conv(x):
        return x if mode == "min" else 1.0 - x

    def bad(rule, msg, seq, **tags):
        if not any(o["rule"] == rule for o in out):
            out.append(V("C14", rule, tr, msg, seq, **tags))

    for c in tr.sched:
        if c["exc"] is not None or c["s1"] is None:
            if c["exc"] is not None:
                break
            continue
        m, t = c["m"], c["trial"]
        ev = rets.get(c["s1"], {})
        ended = None
        if m == "suggest" and c["ret"] is not None:
            if c["ret"]["new"]:
                live.add(str(t))
                decided.discard(str(t))
            else:
                rts = str(c["ret"]["ckpt"])
                live.add(rts)
                decided.discard(rts)
                if decided_at.get(rts):
                    resume_from[rts] = max(decided_at[rts])  # re-reports up to the pause level are ignored
        elif m == "on_trial_result":
            ts = str(t)
            lvl = int(c["result"]["epoch"])
            if ts in live and ts not in decided:
                reported.setdefault(ts, {})[lvl] = float(c["result"][metric])
                if lvl > resume_from.get(ts, 0):
                    delivered.setdefault(ts, []).append(lvl)
            if c["ret"] in ("STOP", "PAUSE"):
                if ts in live and ts not in decided:
                    decided_at.setdefault(ts, set()).add(lvl)
                decided.add(ts)
        elif m in ("on_trial_remove", "on_trial_complete", "on_trial_error"):
            ended = str(t)
            live.discard(ended)
            if m == "on_trial_complete" and c.get("result"):
                # the final result of a trial that completed on its own is passed on to the searcher (if not used yet)
                final_level.setdefault(ended, set()).add(int(c["result"]["epoch"]))
                reported.setdefault(ended, {})[int(c["result"]["epoch"])] = float(c["result"][metric])
        if m == "on_trial_add" and "bracket" in ev:
            bracket_of[str(t)] = ev["bracket"]
        elif m == "suggest" and c["ret"] is not None and not c["ret"]["new"] and "bracket" in ev:
            bracket_of[str(c["ret"]["ckpt"])] = ev["bracket"]
        gp = ev.get("gp")
        if gp is None:
            if m == "suggest":
                continue
            bad("H.tap_missing", "surrogate state not recorded (harness tap)", c["s0"])
            return out
        probes["probe.gp_state_checks"] = probes.get("probe.gp_state_checks", 0) + 1
        # ---- R1 at most one observation per (trial, level), equal to what was reported ------
        for ts, lv in gp["obs"].items():
            for l, v in lv.items():
                if l == "-":
                    continue
                rep = reported.get(ts, {}).get(int(l))
                if rep is None:
                    bad("R1.unknown_observation", "data set holds trial %s level %s which was never delivered" % (ts, l), c["s1"])
                elif not close(v, conv(rep)):
                    bad("R1.value", "data set holds %r for trial %s level %s, reported %r (mode %s)" % (v, ts, l, rep, mode), c["s1"], mode=mode)
        # ---- R2 levels present = data policy (asynchronous Hyperband) ---------------------------
        if kind != "hb_dyhpo":
            for ts, lv in gp["obs"].items():
                have = {int(l) for l in lv if l != "-"}
                dl = delivered.get(ts, [])
                if sync and policy == "rungs":
                    # synchronous Hyperband: a trial's rung levels are the milestones it was told to run to and paused at
                    allowed = set(decided_at.get(ts, ()))
                    required = set(allowed)
                elif policy == "rungs":
                    allowed = {l for l in dl if l in rung_levels}
                    required = set(allowed)
                elif policy == "all":
                    allowed = set(dl)
                    required = set(dl)
                else:
                    # "rungs plus latest": what is kept are the trial's OWN milestones (bracket offset respected)
                    # kept for good: the levels at which the trial reached a milestone (judged by the scheduler's own
                    # decision: it paused or stopped there); kept for now: the latest level
                    allowed = {l for l in dl if l in rung_levels} | ({dl[-1]} if dl else set())
                    required = set(decided_at.get(ts, ())) | ({dl[-1]} if dl else set())
                allowed = allowed | final_level.get(ts, set())
                if not have <= allowed:
                    bad("R2.extra_levels", "trial %s: levels %s in the data set, policy %s allows %s" % (ts, sorted(have - allowed), policy, sorted(allowed)),
                        c["s1"], policy=policy)
                if m == "on_trial_result" and str(t) == ts and not required <= have and ts not in gp["failed"]:
                    bad("R2.missing_levels", "trial %s: levels %s missing from the data set (policy %s)" % (ts, sorted(required - have), policy),
                        c["s1"], policy=policy)
        # ---- R3 pending entries belong to live trials at unobserved levels ------------------------
        for ts, res in gp["pend"]:
            if ts not in live:
                bad("R3.pending_not_live", "pending evaluation (%s, %s) although trial %s is not running" % (ts, res, ts), c["s1"], after=m)
            elif res is not None and str(res) in gp["obs"].get(ts, {}):
                bad("R3.pending_observed", "pending evaluation (%s, %s) at a level already observed" % (ts, res), c["s1"])
        # ---- R4 end of a trial removes its pending entries and nobody else's -----------------------
        if ended is not None:
            if any(ts == ended for ts, _ in gp["pend"]):
                bad("R4.pending_survives_end", "trial %s ended (%s) but keeps pending evaluations" % (ended, m), c["s1"], after=m)
            if prev_pend is not None:
                lost = [p for p in prev_pend if p[0] != ended and p not in gp["pend"]]
                if lost:
                    bad("R4.pending_of_others_lost", "end of trial %s (%s) removed pending evaluations %s of other trials" % (ended, m, lost[:4]),
                        c["s1"], after=m)
        prev_pend = gp["pend"]
    return out
