"""C19 -- Pareto ranking is consistent and MOASHA follows it."""
import math

import numpy as np

from dst.oracles import V


def dominates(a, b):
    return all(x <= y for x, y in zip(a, b)) and any(x < y for x, y in zip(a, b))


def layers(points):
    """Brute-force Pareto layers (dominance matrix, then peeling): list of lists of indices."""
    X = np.asarray(points, dtype=float)
    n = len(X)
    le = (X[:, None, :] <= X[None, :, :]).all(-1)
    lt = (X[:, None, :] < X[None, :, :]).any(-1)
    dom = le & lt  # dom[i, j]: i dominates j
    alive = np.ones(n, dtype=bool)
    out = []
    while alive.any():
        dominated = (dom[alive][:, :].any(0)) & alive
        front = np.where(alive & ~dominated)[0]
        out.append([int(i) for i in front])
        alive[front] = False
    return out


def milestones(min_t, max_t, rf, s):
    n = int(math.log(max_t / min_t) / math.log(rf) - s + 1)
    return [min_t * rf ** (k + s) for k in reversed(range(n))]


def check(tr):
    scen = tr.scen
    if scen["kind"] != "moasha":
        return []
    out = []
    s = scen["scheduler"]
    metrics = scen["metrics"]
    modes = s["modes"]
    if isinstance(modes, str):
        modes = [modes] * len(metrics)
    sign = [1.0 if m == "min" else -1.0 for m in modes]
    rf = s["reduction_factor"]
    max_t = s["max_t"]
    prio = s["priority"]
    nb = s["brackets"]
    ms = [milestones(s["grace_period"], max_t, rf, b) for b in range(nb)]
    rungs = {}  # (bracket, milestone) -> list of (trial, vec)
    bracket = {}
    probes = tr.hist.counters
    rets = {e["s"]: e for e in tr.events if e["k"] == "s.ret"}
    pure_checked = 0

    def bad(rule, msg, seq, **tags):
        out.append(V("C19", rule, tr, msg, seq, **tags))

    def record(t, r, res, d, seq):
        b = bracket.get(t)
        if b is None:
            return
        vec = tuple(sign[i] * float(res[m]) for i, m in enumerate(metrics))
        for mst in ms[b]:
            lst = rungs.setdefault((b, mst), [])
            if r < mst or any(x == t for x, _ in lst):
                continue
            if d is not None:
                if not lst:
                    if d != "CONTINUE":
                        bad("R2.first_entry", "trial %s is the first entry of rung %s and got %s" % (t, mst, d), seq)
                else:
                    pts = [v for _, v in lst] + [vec]
                    n = len(pts)
                    if prio == "nondominated":
                        L = layers(pts)
                        before = 0
                        for lay in L:
                            if n - 1 in lay:
                                lo, hi = before, before + len(lay) - 1
                                break
                            before += len(lay)
                        cap = tr.scen["scheduler"].get("max_num_samples")
                        if cap is not None and cap < n:
                            # documented: only the first `cap` items of the sort have distinct priorities, all others share
                            # the lowest one (rank = number of items with a strictly better priority = cap)
                            if lo >= cap:
                                lo = hi = cap
                            elif hi >= cap:
                                hi = cap
                            probes["probe.moasha_capped_priorities"] = probes.get("probe.moasha_capped_priorities", 0) + 1
                    else:
                        sc = [p[0] for p in pts] if prio == "fixed" else [sum(p) / len(p) for p in pts]
                        lo = sum(1 for x in sc[:-1] if x < sc[-1] and not close(x, sc[-1]))
                        hi = sum(1 for x in sc[:-1] if x < sc[-1] or close(x, sc[-1]))
                    probes["probe.moasha_rank_decisions"] = probes.get("probe.moasha_rank_decisions", 0) + 1
                    if n >= 4:
                        probes["probe.moasha_rung_ge4"] = probes.get("probe.moasha_rung_ge4", 0) + 1
                    exp = None
                    if hi / n <= 1.0 / rf:
                        exp = "CONTINUE"
                    elif lo / n > 1.0 / rf:
                        exp = "STOP"
                    if exp is not None and d != exp:
                        bad("R2.rank_rule", "trial %s at rung %s: %s, but its rank lies in [%d, %d] of %d (1/rf = %.3f) -> %s" % (
                            t, mst, d, lo, hi, n, 1.0 / rf, exp), seq, priority=prio, expect=exp)
            lst.append((t, vec))
            break

    for c in tr.sched:
        if c["exc"] is not None or c["s1"] is None:
            continue
        m, t = c["m"], c["trial"]
        if m == "on_trial_add":
            b = rets.get(c["s1"], {}).get("bracket")
            if b is None:
                bad("H.tap_missing", "MOASHA bracket of trial %s not recorded" % t, c["s0"])
                return out
            bracket[t] = b
        elif m == "on_trial_result":
            r = c["result"]["epoch"]
            d = c["ret"]
            if r >= max_t:
                if d != "STOP":
                    bad("R3.max_resource", "trial %s at %s >= max_t %s: %s" % (t, r, max_t, d), c["s0"])
                continue
            if d not in ("CONTINUE", "STOP"):
                bad("R2.illegal_decision", "MOASHA answered %r" % (d,), c["s0"])
            if t in bracket:
                hit = any(r >= mst and not any(x == t for x, _ in rungs.get((bracket[t], mst), [])) for mst in ms[bracket[t]])
                if not hit and d != "CONTINUE":
                    bad("R2.off_rung", "trial %s at %s (no new rung reached): %s" % (t, r, d), c["s0"])
                record(t, r, c["result"], d, c["s0"])
        elif m == "on_trial_complete":
            record(t, c["result"]["epoch"], c["result"], None, c["s0"])
            bracket.pop(t, None)
        elif m in ("on_trial_remove",):
            bracket.pop(t, None)
    # ---- pure half, sampled on every rung content reached ------------------------------------------
    from syne_tune.optimizer.schedulers.multiobjective.non_dominated_priority import pareto_efficient, nondominated_sort

    for key, lst in rungs.items():
        if len(lst) < 2:
            continue
        X = np.array([v for _, v in lst], dtype=float)
        mask = pareto_efficient(X)
        brute = [not any(dominates(X[j], X[i]) for j in range(len(X)) if j != i) for i in range(len(X))]
        pure_checked += 1
        if list(map(bool, mask)) != brute:
            bad("R1.pareto_filter", "pareto_efficient differs from the brute-force non-dominated mask on %d points" % len(X), None)
            break
        order = list(nondominated_sort(X, dim=0))
        if sorted(int(i) for i in order) != list(range(len(X))):
            bad("R1.sort_not_permutation", "nondominated_sort does not return every index once", None)
            break
        L = layers([tuple(x) for x in X])
        layer_of = {i: li for li, lay in enumerate(L) for i in lay}
        seq_layers = [layer_of[int(i)] for i in order]
        if seq_layers != sorted(seq_layers):
            bad("R1.sort_layers", "nondominated_sort ranks a point of a later Pareto layer before one of an earlier layer", None)
            break
        # the sort with a budget: min(k, N) distinct indices, earlier layers complete before a later one is touched
        nX = len(X)
        sizes = [len(lay) for lay in L]
        ks = sorted({1, nX - 1, nX, nX + 1, sizes[0], sizes[0] + (sizes[1] if len(sizes) > 1 else 0), nX + sizes[-1] - 1} - {0})
        stop = False
        for k in ks:
            part = [int(i) for i in nondominated_sort(X, dim=0, max_items=k)]
            lay_seq = [layer_of[i] for i in part]
            full_before = all(set(L[li]) <= set(part) for li in set(lay_seq) if li < max(lay_seq)) if part else True
            if len(part) != min(k, nX) or len(set(part)) != len(part) or lay_seq != sorted(lay_seq) or not full_before:
                bad("R1.sort_budget", "nondominated_sort(max_items=%d) on %d points (layer sizes %s) returns %d indices %s" % (
                    k, nX, sizes, len(part), part[:12]), None)
                stop = True
                break
        if stop:
            break
    probes["probe.pareto_rung_contents_checked"] = probes.get("probe.pareto_rung_contents_checked", 0) + pure_checked
    return out


def close(a, b):
    return abs(a - b) <= 1e-12 * max(1.0, abs(a), abs(b))
