"""C10 -- simulated experiments replay the benchmark table faithfully in values and time."""
from dst.oracles import V
from dst.workers import JobModel, MAXRES_ATTR

FLOOR = 0.01


def close(a, b, tol=1e-9):
    return abs(a - b) <= tol * max(1.0, abs(a), abs(b))


def check(tr):
    if tr.world != "sim":
        return []
    from dst.worlds.simw import table_value, table_rows, ELAPSED

    out = []
    scen = tr.scen
    sm = scen["sim"]
    d = sm["delays"]
    job = JobModel(scen)
    names, _ = table_rows(scen)
    job.space_keys_tab = names
    metrics = list(job.metric_names)
    S = sm["n_seeds"]
    max_t = scen["scheduler"]["max_t"]
    ckpt = sm["support_checkpointing"]
    probes = tr.hist.counters

    def bad(rule, msg, seq, **tags):
        if sum(1 for o in out if o["rule"] == rule) < 2:
            out.append(V("C10", rule, tr, msg, seq, **tags))

    # ---- per-run facts ---------------------------------------------------------------------
    starts = {}
    plans = {}
    reports = {}
    for e in tr.events:
        if e["k"] == "w.start":
            starts[(e["trial"], e["run"])] = e
        elif e["k"] == "w.plan":
            plans[(e["trial"], e["run"])] = e
        elif e["k"] == "w.report":
            reports.setdefault((e["trial"], e["run"]), []).append(e)
    # level at which each trial was last paused before a given seq (from the scheduler's decisions)
    pauses = {}
    for c in tr.sched:
        if c["m"] == "on_trial_result" and c["exc"] is None and c["ret"] == "PAUSE":
            pauses.setdefault(c["trial"], []).append((c["s0"], int(c["result"]["epoch"])))
    seed_of = {}
    deliv_ts = {c["result"]["sn"]: c["result"].get("st_tuner_time") for c in tr.sched
                if c["m"] == "on_trial_result" and c["result"] and "sn" in c["result"]}
    for (t, run), st in sorted(starts.items()):
        pl = plans.get((t, run))
        if pl is None:
            continue  # stopped before its start event was processed
        cfg = {k: st["config"].get(k) for k in names}
        res = pl["results"]
        paused_at = None
        if ckpt and run > 0:
            prev = [lv for s, lv in pauses.get(t, []) if s < st["s"]]
            paused_at = prev[-1] if prev else None
        # ---- R3 one table seed per trial, R1 values ---------------------------------------
        cands = seed_of.get(t)
        if cands is None:
            cands = [sm["fixed_seed"]] if sm["fixed_seed"] is not None else list(range(S))
        keep = [s for s in cands
                if all(close(r[m], table_value(scen, job, cfg, s, int(r["epoch"]), m)) for r in res for m in metrics)]
        if not keep:
            r0 = res[0] if res else {}
            bad("R3.seed_or_value", "trial %s run %d: reported values (first: level %s %s) match no single seed among %s of the table" % (
                t, run, r0.get("epoch"), {m: r0.get(m) for m in metrics}, cands), pl["s"], resumed=run > 0)
            continue
        seed_of[t] = keep
        seed = keep[0]
        probes["probe.sim_rows_checked"] = probes.get("probe.sim_rows_checked", 0) + len(res)
        # ---- R2 consecutive levels from 1 / pause level + 1 to the end -------------------------
        lv = [int(r["epoch"]) for r in res]
        first = (paused_at + 1) if paused_at is not None else 1
        if lv and (lv[0] != first or lv != list(range(lv[0], lv[0] + len(lv)))):
            bad("R2.levels", "trial %s run %d reports levels %s, expected consecutive from %d (paused at %s, checkpointing %s)" % (
                t, run, lv[:8], first, paused_at, ckpt), pl["s"], resumed=run > 0)
        if pl["status"] == "Completed":
            end = max_t
            if scen["scheduler"]["use_maxres"] and MAXRES_ATTR in st["config"]:
                end = min(end, int(st["config"][MAXRES_ATTR]))
            if lv and lv[-1] != end and first <= end:
                bad("R2.last_level", "trial %s run %d ends at level %d, expected %d" % (t, run, lv[-1], end), pl["s"])
        if run > 0:
            probes["probe.sim_resumed_runs"] = probes.get("probe.sim_resumed_runs", 0) + 1
        # ---- R4 time stamps ---------------------------------------------------------------------------
        if res:
            # (a) elapsed time of the run = table's elapsed time since the resume point (documented 0.01 floor repair)
            ok_seed = None
            regular = False
            for s in keep:
                E = lambda l, s=s: table_value(scen, job, cfg, s, l, ELAPSED)
                off = E(paused_at) if paused_at is not None else 0.0
                rel = [E(l) - off for l in lv]
                incs = [rel[0]] + [b - a for a, b in zip(rel, rel[1:])]
                reg = all(x >= FLOOR for x in incs)
                got = [r[ELAPSED] for r in res]
                if reg:
                    good = all(close(g, x, 1e-9) for g, x in zip(got, rel))
                else:
                    good = all(g >= x - 1e-9 for g, x in zip(got, rel)) and all(b > a for a, b in zip(got, got[1:])) and got[0] >= FLOOR - 1e-12
                if good:
                    ok_seed, regular = s, reg
                    break
            if ok_seed is None:
                bad("R4.elapsed", "trial %s run %d (levels %s, paused at %s): elapsed times %s do not equal the table's elapsed time since the resume point" % (
                    t, run, lv[:6], paused_at, [round(r[ELAPSED], 4) for r in res][:6]), pl["s"], resumed=run > 0)
            else:
                seed_of[t] = [ok_seed] + [s for s in keep if s != ok_seed] if len(keep) > 1 and regular else seed_of[t]
                if not regular:
                    probes["probe.sim_irregular_elapsed_runs"] = probes.get("probe.sim_irregular_elapsed_runs", 0) + 1
            # (b) stamp = start of the run + delay_start + elapsed + delay_on_trial_result
            t0 = st["tk"] + d["start"]
            by_sn = {e["sn"]: e for e in reports.get((t, run), [])}
            for r in res:
                e = by_sn.get(r["sn"])
                if e is None:
                    continue  # never registered (trial stopped before)
                ts = deliv_ts.get(r["sn"], e["tk"])
                exp = t0 + r[ELAPSED] + d["on_trial_result"]
                if ts is None or not close(ts, exp, 1e-9) or not close(e["tk"], exp, 1e-9):
                    bad("R4.time_stamp", "trial %s run %d level %s: st_tuner_time=%r, start %r + delay_start %r + elapsed %r + delay %r = %r" % (
                        t, run, r["epoch"], ts, st["tk"], d["start"], r[ELAPSED], d["on_trial_result"], exp), e["s"])
                    break
    # ---- R2 (delivered stream): a resumed trial continues with results of its new run only -----------------
    sn_run = {}
    for (t, run), pl in plans.items():
        for r in pl["results"]:
            sn_run[r["sn"]] = (t, run, int(r["epoch"]))
    cur = {}
    last_level = {}
    evs = sorted([("start", e["s"], e) for e in starts.values()] +
                 [("res", c["s0"], c) for c in tr.sched if c["m"] == "on_trial_result" and c["result"] and "sn" in c["result"]],
                 key=lambda x: x[1])
    for kind_, _, e in evs:
        if kind_ == "start":
            cur[e["trial"]] = e["run"]
            last_level.pop(e["trial"], None)
            continue
        t = e["trial"]
        info = sn_run.get(e["result"]["sn"])
        if info is None:
            continue
        _, run, lvl = info
        if cur.get(t) is not None and run != cur[t]:
            bad("R2.result_of_old_run", "trial %s: result for level %d of run %d delivered while run %d is under way" % (t, lvl, run, cur[t]),
                e["s0"])
        elif t in last_level and lvl != last_level[t] + 1:
            bad("R2.delivered_levels", "trial %s run %d: level %d delivered after level %d" % (t, run, lvl, last_level[t]), e["s0"])
        last_level[t] = lvl
    # ---- R5 the simulated clock never runs backwards --------------------------------------------------------
    last = None
    for e in tr.events:
        if "tk" in e and e["k"] in ("tk", "w.start", "w.plan", "w.stopcall"):
            if last is not None and e["tk"] < last - 1e-12:
                bad("R5.clock_backwards", "simulated clock went from %r to %r" % (last, e["tk"]), e["s"])
                break
            last = e["tk"]
    # ---- R6 waiting time is charged once ----------------------------------------------------------------------
    clock = tr.hist.final.get("sim_clock")
    if clock is not None and tr.end is not None:
        nsleep = sum(1 for e in tr.events if e["k"] == "cb.sleep")
        charging = [e["s"] for e in tr.events if (e["k"] == "b.call" and e["m"] in ("fetch_status_results", "start_trial", "resume_trial"))
                    or e["k"] == "w.stopcall"]
        lastc = max(charging) if charging else -1
        lat = sum(e["d"] for e in tr.events if e["k"] == "latency" and e["s"] < lastc)
        lat_all = sum(e["d"] for e in tr.events if e["k"] == "latency")
        nstop = sum(1 for e in tr.events if e["k"] == "w.stopcall")
        base = nsleep * sm["tuner_sleep_time"] + nstop * (d["stop"] + d["complete_after_stop"] + 2e-3)
        lo, hi = base + lat, base + lat_all
        if not (lo - 1e-6 <= clock <= hi + 1e-6):
            bad("R6.charging", "clock ends at %r; %d sleeps x %r + %d stops x %r + latency in [%r, %r] = [%r, %r]" % (
                clock, nsleep, sm["tuner_sleep_time"], nstop, d["stop"] + d["complete_after_stop"] + 2e-3, lat, lat_all, lo, hi),
                tr.end["s"], over=clock > hi)
    return out
