"""C02 -- every reported result delivered exactly once, in order, never after stop."""
from dst.oracles import V

STOPPISH = ("STOP", "PAUSE")


def check(tr):
    out = []
    delivered = {}  # (trial, run) -> list of (idx, seq)
    decision_seq = {}  # (trial, run) -> seq of first STOP/PAUSE decision
    resumes = {}  # trial -> list of seq of resume returns
    cur_run = {}
    expect_first = {}  # trial -> True right after a resume
    seen_sn = set()
    order = []
    for e in sorted(list(tr.sched) + [dict(b, _b=1) for b in tr.backend], key=lambda c: c["s0"]):
        if e.get("_b"):
            if e["m"] == "resume_trial" and e["exc"] is None and e["s1"] is not None:
                expect_first[e["trial"]] = e["s1"]
            continue
        if e["m"] != "on_trial_result":
            continue
        t = e["trial"]
        res = e["result"] or {}
        sn = res.get("sn")
        if sn is None or sn not in tr.by_sn:
            out.append(V("C02", "R1.unknown_result", tr, "delivered result of trial %s matches no report" % t, e["s0"]))
            continue
        rt, run, idx = tr.by_sn[sn]
        if rt != t:
            out.append(V("C02", "R1.wrong_trial", tr, "report of trial %s delivered as trial %s" % (rt, t), e["s0"]))
            continue
        if sn in seen_sn:
            out.append(V("C02", "R1.duplicate", tr, "report %s of trial %s run %d delivered twice" % (idx, t, run), e["s0"]))
            continue
        seen_sn.add(sn)
        order.append((t, sn))
        rep = tr.report(t, run, idx)
        # values unchanged
        for k, v in rep["values"].items():
            if res.get(k) != v and not (v == "NaN" and res.get(k) == "NaN"):
                out.append(V("C02", "R1.value_changed", tr, "trial %s level %s key %s: reported %r delivered %r" % (
                    t, rep["level"], k, v, res.get(k)), e["s0"]))
                break
        # R3: nothing after the decision
        d = decision_seq.get((t, run))
        if d is not None and d < e["s0"]:
            emitted_after = rep["s"] > d
            out.append(V("C02", "R3.after_decision", tr,
                         "trial %s run %d: report %d delivered after the scheduler decided to stop/pause this run" % (t, run, idx),
                         e["s0"], emitted_after=emitted_after))
        # R4: after a resume, delivery continues with the first report of the new run
        if t in expect_first:
            rs = expect_first.pop(t)
            newest = max(r["run"] for r in tr.runs_of(t) if r["s0"] <= rs)
            if run != newest or idx != 0:
                # written in the window between the start of the poll that led to the pause and the pause itself?
                dd = decision_seq.get((t, run))
                polls = [f["sc"] for f in tr.fetches if dd is not None and f["s"] < dd]
                race = bool(run < newest and polls and rep["s"] > polls[-1])
                out.append(V("C02", "R4.stale_after_resume", tr,
                             "trial %s: first result after resume is report %d of run %d (expected report 0 of run %d)%s" % (
                                 t, idx, run, newest, "" if race else "; it was written before the poll that led to the pause"),
                             e["s0"], backend=tr.hist.final.get("backend_class", tr.world), race=race))
        lst = delivered.setdefault((t, run), [])
        if idx != len(lst) and not any(o["rule"] == "R1.not_prefix" and o["keys"].get("trial") == t for o in out):
            out.append(V("C02", "R1.not_prefix", tr, "trial %s run %d: report %d delivered after %s (not a gap-free prefix)" % (
                t, run, idx, lst[-6:]), e["s0"]))
        lst.append(idx)
        if e["exc"] is None and e["ret"] in STOPPISH and (t, run) not in decision_seq:
            decision_seq[(t, run)] = e["s1"]
    # R2 completeness
    last_fetch = tr.last_fetch_seq
    if tr.exception is not None:
        last_fetch = tr.fetches[-2]["sc"] if len(tr.fetches) >= 2 else -1
    for (t, run), r in sorted(tr.runs.items()):
        if r["end"] == "exit" and r["code"] == 0 and r["s1"] <= last_fetch and (t, run) not in decision_seq:
            n = len(delivered.get((t, run), []))
            if n != len(r["reports"]):
                polled = any(t in f["status"] or str(t) in f["status"] for f in tr.fetches if f["s"] > r["s0"])
                out.append(V("C02", "R2.incomplete", tr,
                             "trial %s run %d completed on its own before the last poll, %d of %d reports delivered" % (
                                 t, run, n, len(r["reports"])), tr.observed_by(r["s1"]),
                             nodelay=tr.scen["tuner"]["start_jobs_without_delay"], never_polled=not polled))
    # R5 results log = delivered sequence
    rows = tr.hist.final.get("rows")
    if rows is not None and tr.exception is None:
        got = [(r.get("trial_id"), r.get("sn")) for r in rows]
        if got != order:
            out.append(V("C02", "R5.log_mismatch", tr, "results log has %d rows, %d results were delivered (or order differs)" % (
                len(got), len(order)), None))
    return out
