"""C04 -- promotion-type Hyperband (ASHA, PASHA, cost-aware, RUSH) promotes only eligible trials.

A non-deterministic acceptor fed the real event stream: it never predicts which of several
legal choices is taken (metric ties, round-off band), it only rejects illegal ones."""
import numpy as np

from dst.oracles import V
from dst.refmodels.rungs import levels_from_sched
from dst.workers import MAXRES_ATTR

KINDS = {"hb_promotion", "hb_pasha", "hb_cost_promotion", "hb_rush_promotion", "hb_promotion_bo"}


def band(m, c):
    return abs(m - c) <= 1e-9 * max(1.0, abs(m), abs(c))


def is_promotion(scen):
    k = scen["kind"]
    return k in KINDS or (k == "hb_hypertune" and scen["scheduler"].get("hb_type") == "promotion")


class Acc:
    def __init__(self, tr):
        self.tr = tr
        scen = tr.scen
        s = scen["scheduler"]
        self.kind = scen["kind"]
        self.mode = s["mode"]
        self.max_t = s["max_t"]
        self.metric = scen["metrics"][0]
        self.levels = levels_from_sched(s)
        nxt = self.levels[1:] + [self.max_t]
        self.q_of = {l: l / n for l, n in zip(self.levels, nxt)}
        self.num_brackets = min(s["brackets"], len(self.levels) + 1)
        self.per_bracket = s.get("rung_system_per_bracket", False)
        self.use_maxres = s["use_maxres"]
        self.cost = self.kind == "hb_cost_promotion"
        self.rush = self.kind == "hb_rush_promotion"
        self.pasha = self.kind == "hb_pasha"
        self.rungs = {}  # (sys, level) -> list of dict(trial, metric, cost, promoted)
        self.milestone = {}
        self.resume_from = {}
        self.sysof = {}
        self.state = {}  # trial -> "running" | "paused" | "stopped"
        self.cap = None
        self.out = []
        self.probes = tr.hist.counters

    def bad(self, rule, msg, seq, **tags):
        self.out.append(V("C04", rule, self.tr, msg, seq, **tags))

    def sys_levels(self, sys_id):
        return self.levels[sys_id:] if self.per_bracket else self.levels

    def next_level(self, sys_id, r):
        lv = self.sys_levels(sys_id)
        i = lv.index(r)
        return lv[i + 1] if i + 1 < len(lv) else self.max_t

    def better(self, a, b):
        """a strictly better than b beyond the round-off band."""
        if band(a, b):
            return False
        return a < b if self.mode == "min" else a > b

    def eligible(self, sys_id, level, cap):
        """Returns (strict, loose): sets of unpromoted trials at this rung that are strictly / possibly promotable."""
        lst = self.rungs.get((sys_id, level), [])
        if len(lst) < 2 or (cap is not None and level >= cap):
            return set(), set()
        strict, loose = set(), set()
        if self.cost:
            metrics = [e["metric"] for e in lst]
            tie = len({round(m, 12) for m in metrics}) < len(metrics)
            order = sorted(lst, key=lambda e: e["metric"], reverse=self.mode == "max")
            thr = sum(e["cost"] for e in lst) * self.q_of[level]
            cum = 0.0
            for e in order:
                cum += e["cost"]
                if cum > thr and not band(cum, thr):
                    break
                if not e["promoted"]:
                    loose.add(e["trial"])
                    if not tie and not band(cum, thr):
                        strict.add(e["trial"])
            if tie:
                loose = {e["trial"] for e in lst if not e["promoted"]}
            return strict, loose
        vals = np.array([e["metric"] for e in lst], dtype=float)
        q = self.q_of[level]
        cut = float(np.quantile(vals, q if self.mode == "min" else 1.0 - q))
        for e in lst:
            if e["promoted"]:
                continue
            if band(e["metric"], cut):
                loose.add(e["trial"])
            elif (e["metric"] <= cut) if self.mode == "min" else (e["metric"] >= cut):
                loose.add(e["trial"])
                strict.add(e["trial"])
        return strict, loose


def rush_scan(A, real_T):
    """Reference model of the RUSH promotion rule (shared rung system): rungs are scanned from the top, within a rung the
    unpromoted entries best first; a threshold candidate (trial id < num_threshold_candidates) raises the rung's bar to
    its metric and is promotable, any other entry is promotable only if it meets the bar; the first promotable entry is
    promoted if it also meets the quantile.  Returns (trial, level) or None; updates A.thr.  A.rush_exact is switched off
    when the outcome is not determined (NaN metrics, bar within round-off)."""
    better = (lambda a, b: a <= b) if A.mode == "min" else (lambda a, b: a >= b)
    for r in sorted(A.levels, reverse=True):
        lst = A.rungs.get((0, r), [])
        if len(lst) < 2:
            continue
        vals = np.array([e["metric"] for e in lst], dtype=float)
        if not np.all(np.isfinite(vals)):
            A.rush_exact = False
            return None
        q = A.q_of[r]
        cut = float(np.quantile(vals, q if A.mode == "min" else 1.0 - q))
        found = None
        for e in sorted(lst, key=lambda e: e["metric"], reverse=A.mode == "max"):
            if e["promoted"]:
                continue
            m = e["metric"]
            cur = A.thr.get(r)
            if e["trial"] < A.nthr:
                A.thr[r] = m if cur is None or better(m, cur) else cur
                found = e
                break
            if cur is None or better(m, cur):
                found = e
                break
            if band(m, cur):
                A.rush_exact = False
                return None
        if found is None:
            continue
        m = found["metric"]
        if band(m, cut):
            if real_T == found["trial"]:
                return found["trial"], r
            continue
        if better(m, cut):
            return found["trial"], r
    return None


def check(tr):
    scen = tr.scen
    if not is_promotion(scen):
        return []
    A = Acc(tr)
    A.nthr = scen["scheduler"].get("num_threshold_candidates", 0)
    A.thr = {}
    A.rush_exact = A.rush and not A.per_bracket and not scen["script"].get("ties")
    pending_new = None  # (seq of suggest, cap at that time) waiting for on_trial_add to learn the bracket
    last_total_cost = {}
    rets = {e["s"]: e for e in tr.events if e["k"] == "s.ret"}
    cbres = [e for e in tr.events if e["k"] == "cb.result"]
    cb_i = 0
    for c in tr.sched:
        if c["exc"] is not None or c["s1"] is None:
            if c["exc"] is not None:
                break  # after an exception inside the scheduler the acceptor state is no longer defined
            continue
        ev = rets.get(c["s1"], {})
        if "pasha_cap" in ev:
            cap = ev["pasha_cap"]
            if A.cap is not None and cap < A.cap:
                A.bad("R5.cap_decreased", "PASHA resource cap went from %s to %s" % (A.cap, cap), c["s1"])
            A.cap = cap
        m = c["m"]
        t = c["trial"]
        if m == "suggest":
            ret = c["ret"]
            if A.rush_exact:
                real_T = ret["ckpt"] if (ret is not None and not ret["new"]) else None
                exp = rush_scan(A, real_T)
                if A.rush_exact:
                    A.probes["probe.rush_scans"] = A.probes.get("probe.rush_scans", 0) + 1
                    if (exp[0] if exp else None) != real_T:
                        A.bad("R3.rush_rule", "RUSH promotion: scheduler %s, the documented rule gives %s (bars %s)" % (
                            "resumes trial %s" % real_T if real_T is not None else "starts a new trial",
                            "promotion of trial %s from rung %d" % exp if exp else "no promotion", dict(sorted(A.thr.items()))), c["s0"])
                        A.rush_exact = False
            if ret is None:
                continue
            if ret["new"]:
                pending_new = (c["s0"], A.cap, ret["config"])
                continue
            T = ret["ckpt"]
            sys_id = A.sysof.get(T)
            if sys_id is None or A.state.get(T) != "paused":
                A.bad("R3.resume_unknown", "resume of trial %s which is %s" % (T, A.state.get(T)), c["s0"])
                continue
            # locate T's unpromoted entry
            found = [(lvl, e) for (sid, lvl), lst in A.rungs.items() if sid == sys_id for e in lst if e["trial"] == T and not e["promoted"]]
            if not found:
                A.bad("R3.promoted_twice", "trial %s resumed but has no unpromoted rung entry (promoted from that rung before, or never recorded)" % T, c["s0"])
                A.state[T] = "running"
                continue
            r, entry = max(found, key=lambda x: x[0])
            capnow = A.cap if A.pasha else None
            strict, loose = A.eligible(sys_id, r, capnow)
            A.probes["probe.promotions"] = A.probes.get("probe.promotions", 0) + 1
            if T not in loose and not A.rush:
                A.bad("R3.not_eligible", "trial %s resumed from rung %d although its metric %r is worse than the promotion quantile of %s" % (
                    T, r, entry["metric"], sorted(e["metric"] for e in A.rungs[(sys_id, r)])), c["s0"], cost=A.cost)
            if T not in loose and A.rush and len(A.rungs.get((sys_id, r), [])) < 2:
                A.bad("R3.not_eligible", "trial %s resumed from rung %d holding fewer than two entries" % (T, r), c["s0"], cost=A.cost)
            # no higher rung holds a strictly eligible trial
            if not A.rush:
                for lvl in A.sys_levels(sys_id):
                    if lvl > r:
                        st, _ = A.eligible(sys_id, lvl, capnow)
                        if st:
                            A.bad("R3.higher_rung_skipped", "trial %s promoted from rung %d while rung %d holds eligible trial(s) %s" % (
                                T, r, lvl, sorted(st)), c["s0"])
                            break
                # no other unpromoted trial at r strictly better
                if not A.cost:
                    for e in A.rungs[(sys_id, r)]:
                        if not e["promoted"] and e["trial"] != T and A.better(e["metric"], entry["metric"]):
                            A.bad("R3.not_best", "trial %s promoted from rung %d although unpromoted trial %s is better (%r vs %r)" % (
                                T, r, e["trial"], e["metric"], entry["metric"]), c["s0"])
                            break
            nxt = A.next_level(sys_id, r)
            cfg = ret["config"] or {}
            if A.use_maxres and cfg.get(MAXRES_ATTR) != nxt:
                A.bad("R4.next_level", "trial %s resumed from %d told to run to %r, next rung level is %d" % (T, r, cfg.get(MAXRES_ATTR), nxt), c["s0"])
            if A.pasha and capnow is not None and nxt > capnow:
                A.bad("R5.cap_exceeded", "trial %s promoted to %d beyond the current PASHA cap %d" % (T, nxt, capnow), c["s0"])
            entry["promoted"] = True
            A.milestone[T] = nxt
            A.resume_from[T] = r
            A.state[T] = "running"
        elif m == "on_trial_add":
            b = ev.get("bracket")
            if b is None:
                A.bad("H.tap_missing", "sampled bracket not recorded (harness tap)", c["s0"])
                return A.out
            sys_id = b if A.per_bracket else 0
            A.sysof[t] = sys_id
            first = A.levels[b] if b < len(A.levels) else A.max_t
            A.milestone[t] = first
            A.resume_from[t] = None
            A.state[t] = "running"
            if pending_new is not None:
                seq, capthen, cfg = pending_new
                pending_new = None
                if A.use_maxres and (cfg or {}).get(MAXRES_ATTR) != first:
                    A.bad("R4.first_milestone", "new trial %s (bracket %d) told to run to %r, its first rung level is %d" % (
                        t, b, (cfg or {}).get(MAXRES_ATTR), first), seq)
                if not A.rush:
                    for lvl in A.sys_levels(sys_id):
                        st, _ = A.eligible(sys_id, lvl, capthen if A.pasha else None)
                        if st:
                            A.bad("R6.new_while_eligible", "new trial %s started although rung %d holds eligible paused trial(s) %s" % (
                                t, lvl, sorted(st)), seq, cost=A.cost)
                            break
        elif m == "on_trial_result":
            res = c["result"]
            r = int(res["epoch"])
            d = c["ret"]
            if A.state.get(t) != "running":
                continue
            ms = A.milestone.get(t)
            rf = A.resume_from.get(t)
            if r >= A.max_t:
                exp = "STOP"
            elif r == ms:
                exp = "PAUSE"
            elif r < ms:
                exp = "CONTINUE"
            else:
                exp = None
                A.bad("R1.past_milestone", "trial %s reported resource %d past its milestone %d and the scheduler answered %s" % (t, r, ms, d), c["s0"])
            if exp is not None and d != exp:
                A.bad("R1.decision", "trial %s at %d (milestone %s, max_t %d): %s, expected %s" % (t, r, ms, A.max_t, d, exp), c["s0"], expect=exp)
            if r == ms and r < A.max_t and not (rf is not None and r <= rf):
                sys_id = A.sysof[t]
                if r in A.sys_levels(sys_id):
                    lst = A.rungs.setdefault((sys_id, r), [])
                    if any(e["trial"] == t for e in lst):
                        A.bad("R2.recorded_twice", "trial %s reaches rung %d twice" % (t, r), c["s0"])
                    else:
                        # total cost as written by the scheduler into the result (see cb.result that follows)
                        cost = None
                        if A.cost:
                            nxt_cb = next((e for e in cbres if e["s"] > c["s1"] and e["trial"] == t), None)
                            rr = (nxt_cb or {}).get("result", {})
                            cost = next((v for k, v in rr.items() if k.startswith("total_")), res.get("cost", res.get("elapsed_time")))
                        lst.append({"trial": t, "metric": res[A.metric], "cost": cost, "promoted": False})
            if d == "PAUSE":
                A.state[t] = "paused"
            elif d == "STOP":
                A.state[t] = "stopped"
        elif m == "on_trial_error":
            A.state[t] = "failed" if A.state.get(t) != "paused" else "paused"
        elif m == "on_trial_complete":
            A.state[t] = "stopped"
    return A.out
