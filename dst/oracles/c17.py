"""C17 -- results log and best configuration reflect what happened."""
import math

from dst.oracles import V


def _num(x):
    return isinstance(x, (int, float)) and not isinstance(x, bool)


def _eq(a, b, rel=1e-12):
    if a == "NaN" or (isinstance(a, float) and math.isnan(a)):
        return b == "NaN" or b is None or (isinstance(b, float) and math.isnan(b))
    if _num(a) and _num(b):
        return a == b or abs(a - b) <= rel * max(abs(a), abs(b))
    if _num(a) and isinstance(b, str):
        try:
            return _eq(a, float(b), rel)
        except ValueError:
            return False
    if isinstance(a, str) and _num(b):
        try:
            return _eq(float(a), b, rel)
        except ValueError:
            return False
    return a == b or str(a) == str(b)


def check(tr):
    out = _check(tr)
    # a carriage return inside a delivered string value (the table on disk is written and read by pandas, which does
    # not quote a bare CR on writing and treats it as a line end on reading): tagged, see the known findings
    cr = any(_has_cr(e.get("result")) for e in tr.events if e["k"] == "cb.result")
    for v in out:
        v["keys"]["cr_string"] = cr
    return out


def _has_cr(x):
    if isinstance(x, str):
        return "\r" in x
    if isinstance(x, dict):
        return any(_has_cr(k) or _has_cr(v) for k, v in x.items())
    if isinstance(x, (list, tuple)):
        return any(_has_cr(v) for v in x)
    return False


def _check(tr):
    out = []
    fin = tr.hist.final
    rows = fin.get("rows")
    if rows is None or tr.end is None:
        return out
    end_seq = tr.end["s"]
    # delivered results with their context (config at delivery time, decision, status)
    deliv = [e for e in tr.events if e["k"] == "cb.result"]
    # ---- R1 one row per delivered result, in order, with all values ---------------------
    if len(rows) != len(deliv):
        out.append(V("C17", "R1.row_count", tr, "%d rows for %d delivered results" % (len(rows), len(deliv)), end_seq))
    # ... where "delivered" means delivered to the *scheduler*: the callback stream (from which the table is built and
    # which the probe shares) must be the scheduler's stream of on_trial_result calls, with the decision it returned
    sdel = [c for c in tr.sched if c["m"] == "on_trial_result" and c["exc"] is None and c["s1"] is not None]
    if tr.exception is None:
        a = [(c["trial"], c["result"].get("sn"), c["ret"]) for c in sdel]
        b = [(r.get("trial_id"), r.get("sn"), r.get("st_decision")) for r in rows]
        if a != b:
            i = next((k for k, (x, y) in enumerate(zip(a, b)) if x != y), min(len(a), len(b)))
            out.append(V("C17", "R1.not_scheduler_stream", tr,
                         "table has %d rows, the scheduler received %d results; first difference at position %d: scheduler %s, row %s" % (
                             len(b), len(a), i, a[i] if i < len(a) else None, b[i] if i < len(b) else None), end_seq))
    for i, (row, d) in enumerate(zip(rows, deliv)):
        res = d["result"]
        bad = None
        for k, v in res.items():
            if k not in row or not _eq(v, row[k]):
                bad = "value %s: delivered %r, row %r" % (k, v, row.get(k))
                break
        if bad is None and row.get("trial_id") != d["trial"]:
            bad = "trial_id %r != %r" % (row.get("trial_id"), d["trial"])
        if bad is None and row.get("st_decision") != d["decision"]:
            bad = "decision %r != %r" % (row.get("st_decision"), d["decision"])
        if bad is None and row.get("st_status") != d["status"]:
            bad = "status %r != %r" % (row.get("st_status"), d["status"])
        if bad is None:
            for k, v in d["config"].items():
                if "config_" + k not in row or not _eq(v, row["config_" + k]):
                    bad = "config_%s: %r vs trial config %r" % (k, row.get("config_" + k), v)
                    break
        if bad is None and "st_tuner_time" not in row:
            bad = "no tuner time stamp"
        if bad is not None:
            out.append(V("C17", "R1.row_content", tr, "row %d: %s" % (i, bad), d["s"]))
            break
    # tuner time stamps non-decreasing in W-MEM/W-LOCAL (stamped at delivery)
    if tr.world != "sim":
        ts = [r.get("st_tuner_time") for r in rows if _num(r.get("st_tuner_time"))]
        if any(b < a - 1e-9 for a, b in zip(ts, ts[1:])):
            out.append(V("C17", "R1.time_order", tr, "tuner time stamps decrease along the log", end_seq))
    # ---- R2 CSV read-back -------------------------------------------------------------------
    csv = fin.get("csv")
    if rows and csv is not None and "error" not in csv:
        crow = csv["rows"]
        if len(crow) != len(rows):
            out.append(V("C17", "R2.csv_rows", tr, "csv has %d rows, table has %d" % (len(crow), len(rows)), end_seq))
        else:
            for i, (a, b) in enumerate(zip(rows, crow)):
                bad = None
                for k, v in a.items():
                    bv = b.get(k)
                    if v is None or v == "NaN" or v == "":
                        # (an empty string is an empty CSV field, which reads back as missing)
                        ok = bv is None or bv == "NaN" or bv == ""
                    else:
                        ok = _eq(v, bv)
                    if not ok:
                        bad = "row %d column %s: %r written, %r read back" % (i, k, v, bv)
                        break
                if bad:
                    out.append(V("C17", "R2.csv_value", tr, bad, end_seq))
                    break
    # ---- R3 / R5 from what the back-end handed to the loop -----------------------------------
    metric = tr.scen["metrics"][0]
    mode = tr.scen["scheduler"].get("mode", "min")
    if tr.scen["kind"] == "moasha":
        modes = tr.scen["scheduler"]["modes"]
        mode = modes if isinstance(modes, str) else modes[0]
    variants = [tr.fetches]
    if tr.exception is not None and tr.fetches:
        # the exception may have left the loop while the last batch was being processed: that batch is in
        # flight -- accepted both as counted and as not yet counted (nothing else is relaxed)
        variants.append(tr.fetches[:-1])
    results = [stats_check(tr, fs, metric, mode, fin, rows, end_seq) for fs in variants]
    best = min(results, key=len)
    out.extend(best)
    return out


def stats_check(tr, fetches, metric, mode, fin, rows, end_seq):
    out = []
    handed = []  # (trial, result) for every result in every fetched batch
    for f in fetches:
        for tid, res in f["results"]:
            handed.append((tid, res))
    vals = [(tid, res[metric]) for tid, res in handed if _num(res.get(metric))]
    best = fin.get("best")
    if vals and best is not None:
        if "error" in best:
            out.append(V("C17", "R3.best_config_raises", tr, "Tuner.best_config() raised %s" % best["error"], end_seq))
        else:
            opt = min(v for _, v in vals) if mode == "min" else max(v for _, v in vals)
            attain = {tid for tid, v in vals if v == opt}
            if best["trial"] not in attain:
                out.append(V("C17", "R3.best_config", tr, "Tuner.best_config() -> trial %s, optimum %r (%s) attained by %s" % (
                    best["trial"], opt, mode, sorted(attain)), end_seq, mode=mode))
    for b in fin.get("best_by_metric") or []:
        name = tr.scen["metrics"][b["i"]]
        modes = tr.scen["scheduler"].get("modes", mode)
        md = modes if isinstance(modes, str) else modes[b["i"]]
        mv = [(tid, res[name]) for tid, res in handed if _num(res.get(name))]
        if not mv:
            continue
        if "error" in b:
            out.append(V("C17", "R3.best_config_raises", tr, "Tuner.best_config(metric %s by %s) raised %s" % (name, b["by"], b["error"]), end_seq))
            continue
        opt = min(v for _, v in mv) if md == "min" else max(v for _, v in mv)
        attain = {tid for tid, v in mv if v == opt}
        if b["trial"] not in attain:
            out.append(V("C17", "R3.best_config", tr, "Tuner.best_config(metric %s, given by %s) -> trial %s, optimum %r (%s) attained by %s" % (
                name, b["by"], b["trial"], opt, md, sorted(attain)), end_seq, mode=md, metric_index=b["i"]))
    expb = fin.get("exp_best")
    rvals = [(r.get("trial_id"), r[metric]) for r in rows if _num(r.get(metric))]
    if rvals and expb is not None and tr.exception is None:
        if "error" in expb:
            out.append(V("C17", "R4.exp_best_raises", tr, "load_experiment().best_config() raised %s" % expb["error"], end_seq))
        else:
            opt = min(v for _, v in rvals) if mode == "min" else max(v for _, v in rvals)
            if not _eq(expb.get(metric), opt, 1e-9):
                out.append(V("C17", "R4.exp_best", tr, "loaded experiment reports best %s=%r, optimum over rows is %r" % (
                    metric, expb.get(metric), opt), end_seq, mode=mode))
    # R5 running statistics
    so = fin.get("stats_overall")
    if so is not None:
        if so["count"] != len(handed):
            out.append(V("C17", "R5.count", tr, "overall count %d, %d results were handed to the loop" % (so["count"], len(handed)), end_seq))
        keys = set()
        for _, res in handed:
            keys.update(k for k, v in res.items() if _num(v) or v == "NaN")
        for k in sorted(keys):
            xs = [res[k] for _, res in handed if k in res]
            if not all(_num(x) or x == "NaN" for x in xs):
                continue  # mixed numeric / non-numeric values: only the count is demanded
            if any(x == "NaN" for x in xs):
                # NaN values never take part in the running extrema (the non-NaN optimum is demanded)
                good = [x for x in xs if x != "NaN"]
                if good and k in so["min"]:
                    for nm, ev in (("min", min(good)), ("max", max(good))):
                        got = so[nm].get(k)
                        if not (isinstance(got, (int, float)) and _eq(got, ev, 1e-9)):
                            out.append(V("C17", "R5.stat_nan", tr, "overall %s of %s is %r with NaN values reported, non-NaN %s is %r" % (
                                nm, k, got, nm, ev), end_seq, stat=nm))
                            break
                continue
            try:
                exp = {"min": min(xs), "max": max(xs), "sum": math.fsum(xs)}
            except OverflowError:
                continue  # sums that overflow are not judged
            for nm, ev in exp.items():
                got = so[nm].get(k)
                if got is None or not _eq(got, ev, 1e-9):
                    out.append(V("C17", "R5.stat", tr, "overall %s of %s is %r, recomputed %r" % (nm, k, got, ev), end_seq, stat=nm))
                    break
        per = {}
        for tid, res in handed:
            per.setdefault(tid, []).append(res)
        st_tr = fin.get("stats_trial", {})
        for tid, lst in per.items():
            s = st_tr.get(tid) or st_tr.get(str(tid))
            if s is None or s["count"] != len(lst):
                out.append(V("C17", "R5.trial_count", tr, "trial %s: count %s, %d results handed over" % (tid, s and s["count"], len(lst)), end_seq))
                break
            xs = [r[metric] for r in lst if metric in r]
            if xs and all(_num(x) for x in xs):
                if not _eq(s["min"].get(metric), min(xs), 1e-9) or not _eq(s["max"].get(metric), max(xs), 1e-9):
                    out.append(V("C17", "R5.trial_stat", tr, "trial %s: min/max of %s = %r/%r, recomputed %r/%r" % (
                        tid, metric, s["min"].get(metric), s["max"].get(metric), min(xs), max(xs)), end_seq))
                    break
    return out
