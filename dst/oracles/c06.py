"""C06 -- suggestions are valid, typed configurations; initial points first; no repeats.

Membership, the mid-point rule and the size of the space are re-implemented here from the
scenario's domain specs (not via Domain.is_valid / config_space_size)."""
import math

from dst.oracles import V
from dst.oracles.c13 import NOREPEAT_KINDS
from dst.workers import MAXRES_ATTR

EXTRA_OK = {MAXRES_ATTR, "trial_id", "elapsed_time"}
FLOATS = {"uniform", "loguniform", "reverseloguniform", "quniform", "qloguniform"}
INTS = {"randint", "lograndint", "qrandint"}


def close(a, b, rel=1e-9):
    return abs(a - b) <= rel * max(1.0, abs(a), abs(b))


def grid(spec):
    k, lo, hi, size = spec[0], spec[1], spec[2], spec[3]
    if size == 1:
        return [lo]
    if k == "finrange":
        return [lo + i * (hi - lo) / (size - 1) for i in range(size)]
    return [math.exp(math.log(lo) + i * (math.log(hi) - math.log(lo)) / (size - 1)) for i in range(size)]


def member(spec, v, tname):
    """Returns None if v is a member of the domain, else a reason."""
    k = spec[0]
    if k in FLOATS:
        if tname not in ("float", "float64") or isinstance(v, bool) or not isinstance(v, (int, float)):
            return "type %s, expected float" % tname
        lo, hi = spec[1], spec[2]
        if not (lo - 1e-12 * max(1, abs(lo)) <= v <= hi + 1e-12 * max(1, abs(hi))):
            return "%r outside [%r, %r]" % (v, lo, hi)
        # quantised variants: membership is type + bounds (quantisation is a property of the sampler only)
        return None
    if k in INTS:
        if tname != "int" or isinstance(v, bool):
            return "type %s, expected int" % tname
        if not (spec[1] <= v <= spec[2]):
            return "%r outside [%r, %r]" % (v, spec[1], spec[2])
        return None
    if k in ("choice", "ordinal"):
        if not any(v == c and type(v) is type(c) for c in spec[1]):
            return "%r not among %r" % (v, spec[1])
        return None
    if k in ("finrange", "logfinrange"):
        cast_int = spec[4]
        if cast_int and tname != "int":
            return "type %s, expected int" % tname
        if not cast_int and tname not in ("float", "float64"):
            return "type %s, expected float" % tname
        g = grid(spec)
        if cast_int:
            g = [int(round(x)) for x in g]
        if not any(close(v, x, 1e-7) for x in g):
            return "%r not on the grid %r" % (v, g)
        return None
    return None


def midpoints(spec):
    """Set of acceptable mid-point values for a missing entry (either neighbour at an exact half)."""
    k = spec[0]
    if k == "choice":
        return [spec[1][0]]
    if k == "ordinal":
        cats, kind = spec[1], spec[2]
        if kind == "equal":
            return [cats[len(cats) // 2]]
        lo, hi = float(cats[0]), float(cats[-1])
        mid = math.exp(0.5 * (math.log(lo) + math.log(hi))) if kind == "nn-log" else 0.5 * (lo + hi)
        f = (lambda x: math.log(x)) if kind == "nn-log" else (lambda x: x)
        d = [abs(f(c) - f(mid)) for c in cats]
        m = min(d)
        return [c for c, x in zip(cats, d) if close(x, m, 1e-9) or abs(x - m) < 1e-12]
    lo, hi = float(spec[1]), float(spec[2])
    log = k in ("loguniform", "lograndint", "logfinrange", "qloguniform")
    if k == "reverseloguniform":
        # reverse log: 1 - x is log-uniform
        mid = 1.0 - math.exp(0.5 * (math.log(1.0 - lo) + math.log(1.0 - hi)))
        return [mid, 0.5 * (lo + hi)]
    mid = math.exp(0.5 * (math.log(lo) + math.log(hi))) if log else 0.5 * (lo + hi)
    if k in ("uniform", "loguniform"):
        return [mid]
    if k in ("randint", "lograndint"):
        return sorted({int(math.floor(mid)), int(math.ceil(mid)), int(round(mid))})
    if k in ("finrange", "logfinrange"):
        g = grid(spec)
        f = (lambda x: math.log(x)) if k == "logfinrange" else (lambda x: x)
        d = [abs(f(x) - f(mid)) for x in g]
        m = min(d)
        vals = [x for x, y in zip(g, d) if abs(y - m) <= 1e-9 * max(1.0, m)]
        return [int(round(x)) for x in vals] if spec[4] else vals
    if k in ("quniform", "qloguniform"):
        # quantisation belongs to the sampler: the plain mid-point (arithmetic, or geometric for the log
        # variant) and its quantised neighbours are all accepted
        q = spec[3]
        acc = set()
        for md in {mid, 0.5 * (lo + hi)}:
            acc |= {md, min(max(math.floor(md / q) * q, lo), hi), min(max(math.ceil(md / q) * q, lo), hi)}
        return sorted(acc)
    if k == "qrandint":
        q = spec[3]
        return sorted({int(math.floor(mid / q) * q), int(math.ceil(mid / q) * q), int(math.floor(mid)), int(math.ceil(mid)), int(round(mid))})
    return [mid]


def check(tr):
    out = []
    scen = tr.scen
    from dst import zoo

    specs = {name: spec for name, spec in scen["space"]}
    hp_names = [n for n, s in scen["space"] if s[0] != "const" and n != MAXRES_ATTR]
    size = zoo.effective_space_size(scen)
    grid_unknown = False
    if scen["kind"] == "fifo_grid":
        # "its grid": all values of finite domains, min(range, 5) equally spaced points of an integer range
        # (documented); log-scaled integer ranges are rounded from log space and may collapse -> not judged
        size = 1
        for name, spec in scen["space"]:
            if spec[0] == "randint":
                size *= min(spec[2] - spec[1] + 1, 5)
            elif spec[0] == "lograndint" and spec[2] > spec[1]:
                grid_unknown = True
            else:
                size *= zoo.effective_domain_size(spec) or 5
    news = []  # (seq, config) of new-trial suggestions
    kind = scen["kind"]
    first_none = None
    for c in tr.sched:
        if c["m"] != "suggest" or c["exc"] is not None or c["s1"] is None:
            continue
        ret = c["ret"]
        if ret is None:
            if first_none is None:
                first_none = c
            continue
        cfg = ret["config"]
        if cfg is None:
            continue
        types = ret.get("types") or {}
        # ---- R1 keys, constants, membership and type ---------------------------------
        for name, spec in scen["space"]:
            if name == MAXRES_ATTR:
                continue
            if name not in cfg:
                out.append(V("C06", "R1.missing_key", tr, "suggestion for trial %s lacks key %s" % (c["trial"], name), c["s0"], new=ret["new"]))
                break
            v = cfg[name]
            if spec[0] == "const":
                if v != spec[1]:
                    out.append(V("C06", "R1.constant_changed", tr, "constant %s=%r suggested as %r" % (name, spec[1], v), c["s0"]))
                    break
                continue
            why = member(spec, v, types.get(name, type(v).__name__))
            if why is not None:
                out.append(V("C06", "R1.not_member", tr, "trial %s: %s=%r: %s (domain %s)" % (c["trial"], name, v, why, spec), c["s0"],
                             domain=spec[0]))
                break
        extra = set(cfg) - set(specs) - EXTRA_OK
        if extra:
            out.append(V("C06", "R1.extra_keys", tr, "suggestion carries unknown keys %s" % sorted(extra), c["s0"]))
        if ret["new"]:
            news.append((c["s0"], cfg, c["trial"]))
    # ---- R2 initial points first, imputed by the mid-point rule, duplicates removed -------
    pte = tr.hist.final.get("pte")
    restrict0 = scen["scheduler"].get("restrict_configurations")
    if pte is not None and restrict0:
        # documented: initial points outside restrict_configurations are removed; imputed points are not judged here
        pte = None
    if pte is not None and kind not in ("dehb", "pbt", "moasha"):
        want = []  # list of dict name -> list of acceptable values
        want_src = []
        seen = []
        for p in pte:
            acc = {}
            for n in hp_names:
                if n in p:
                    acc[n] = [p[n]]
                else:
                    acc[n] = midpoints(specs[n])
            if any(all(any(eqv(a, b) for a in acc[n] for b in prev[n]) for n in hp_names) and
                   all(len(acc[n]) == 1 and len(prev[n]) == 1 for n in hp_names) for prev in seen):
                continue  # exact duplicate of an earlier initial point
            seen.append(acc)
            want.append(acc)
            want_src.append(p)
        i = 0
        for j, acc in enumerate(want):
            if i >= len(news):
                break
            seq, cfg, tid = news[i]
            bad = [n for n in hp_names if n in cfg and not any(eqv(cfg[n], a) for a in acc[n])]
            if not bad:
                i += 1
                continue
            # an imputed point may coincide with an earlier one (either-neighbour ambiguity): then it is dropped
            if any(all(any(eqv(a, b) for a in acc[n] for b in prev[n]) for n in hp_names) for prev in want[:j]):
                continue
            n = bad[0]
            out.append(V("C06", "R2.initial_points", tr, "new trial #%d should carry initial point #%d: %s=%r, expected one of %r" % (
                i, j, n, cfg.get(n), acc[n]), seq, domain=specs[n][0], given=n in (want_src[j])))
            break
    # ---- R3 no repeats -----------------------------------------------------------------------
    allow_dup = bool(scen["scheduler"].get("allow_duplicates"))
    restrict = scen["scheduler"].get("restrict_configurations")
    if restrict:
        inside = {tuple(repr(c_.get(n)) for n in hp_names) for c_ in restrict}
        npte = len(tr.hist.final.get("pte") or [{}])
        for j, (seq, cfg, tid) in enumerate(news):
            if j < npte:
                continue
            if tuple(repr(cfg.get(n)) for n in hp_names) not in inside:
                out.append(V("C06", "R1.outside_restrict", tr, "trial %s gets a configuration outside restrict_configurations" % tid, seq))
                break
        size = len(inside | {tuple(repr(c_.get(n)) for n in hp_names) for _, c_, _ in news[:npte]})
    # (DEHB, too, promises not to give a configuration to two new trials; its first-bracket promotions are resumes here)
    if kind in NOREPEAT_KINDS | {"dehb"} and not allow_dup:
        seenhp = {}
        for seq, cfg, tid in news:
            hp = tuple(repr(cfg.get(n)) for n in hp_names)
            if hp in seenhp:
                out.append(V("C06", "R3.repeat", tr, "trial %s gets the same configuration as trial %s" % (tid, seenhp[hp]), seq))
                break
            seenhp[hp] = tid
    # ---- R4 exhaustion only when the space is used up ---------------------------------------------
    if first_none is not None and kind in NOREPEAT_KINDS | {"dehb"} and not allow_dup:
        distinct = {tuple(repr(cfg.get(n)) for n in hp_names) for seq, cfg, tid in news if seq < first_none["s0"]}
        if (size is None or len(distinct) < size) and not grid_unknown:
            rem = None if size is None else (size - len(distinct)) / float(size)
            out.append(V("C06", "R4.premature_exhaustion", tr, "suggest answered 'nothing left' with %d of %s configurations used" % (
                len(distinct), size), first_none["s0"], few_left=bool(rem is not None and rem <= 0.25),
                searcher="grid" if kind == "fifo_grid" else "random"))  # model-based searchers draw their candidates with the same retry limit
    return out


def eqv(a, b):
    if isinstance(a, (int, float)) and isinstance(b, (int, float)) and not isinstance(a, bool) and not isinstance(b, bool):
        a, b = float(a), float(b)
        return a == b or abs(a - b) <= 1e-7 * max(abs(a), abs(b))  # relative: hyperparameter values may be tiny
    return a == b
