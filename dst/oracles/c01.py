"""C01 -- worker budget and legal trial life cycle."""
from dst.oracles import V

STOPPISH = ("STOP", "PAUSE")


def check(tr):
    out = []
    scen = tr.scen
    nW = scen["tuner"]["n_workers"]
    # ---- R1 occupancy -------------------------------------------------------
    relaxed = scen["backend"].get("async_stop", 0) > 0 and scen["tuner"]["start_jobs_without_delay"]
    alive = set()
    linger = []
    peak = 0
    for e in tr.events:
        k = e["k"]
        if k == "w.start":
            alive.add((e["trial"], e["run"]))
            n = len(alive)
            if not relaxed:
                n += sum(1 for u in linger if u > e["t"])
            peak = max(peak, n)
            if n > nW:
                out.append(V("C01", "R1.occupancy", tr,
                             "%d workers occupied > n_workers=%d when trial %s starts" % (n, nW, e["trial"]), e["s"],
                             nodelay=scen["tuner"]["start_jobs_without_delay"]))
                break
        elif k in ("w.exit", "w.killed"):
            alive.discard((e["trial"], e["run"]))
        elif k == "w.linger":
            linger.append(e["until"])
    tr.hist.counters["probe.peak_occupancy_eq_n_workers"] = int(peak == nW)
    # ---- R2 ids ----------------------------------------------------------------
    started = 0
    for c in merged(tr):
        if c["_src"] == "b" and c["m"] == "start_trial" and c["exc"] is None and c["s1"] is not None:
            if c["ret"] != started:
                out.append(V("C01", "R2.ids", tr, "start_trial returned id %s, expected %d" % (c["ret"], started), c["s0"]))
                break
            started += 1
        elif c["_src"] == "s" and c["m"] == "suggest":
            if c["trial"] != started:
                out.append(V("C01", "R2.ids", tr, "suggest asked with trial_id %s, %d started" % (c["trial"], started), c["s0"]))
                break
    # ---- R3 / R4 automaton -------------------------------------------------------
    out.extend(automaton(tr))
    return out


def merged(tr):
    """Scheduler and back-end calls in one sequence ordered by call seq."""
    a = [dict(c, _src="s") for c in tr.sched]
    b = [dict(c, _src="b") for c in tr.backend]
    return sorted(a + b, key=lambda c: c["s0"])


def worker_failed_truth(tr, trial, upto_seq):
    """Did the current run of `trial` really fail / get stopped externally before upto_seq?"""
    runs = [r for r in tr.runs_of(trial) if r["s0"] <= upto_seq]
    if not runs:
        return False
    r = runs[-1]
    if r["end"] == "exit" and r["code"] not in (0, None) and r["s1"] <= upto_seq:
        return True
    if r["end"] == "killed" and r.get("reason") == "external" and r["s1"] <= upto_seq:
        return True
    return False


def automaton(tr):
    out = []
    state = {}  # trial -> dict(st=..., why=..., pending_remove=bool, fetch=idx)
    fetch_idx = 0
    fetch_seqs = [f["s"] for f in tr.fetches]
    probes = tr.hist.counters

    def cur_fetch(seq):
        n = 0
        for fs in fetch_seqs:
            if fs <= seq:
                n += 1
            else:
                break
        return n

    def bad(rule, msg, seq, **tags):
        out.append(V("C01", rule, tr, msg, seq, **tags))

    just_started = None
    for c in merged(tr):
        t = c.get("trial")
        m = c["m"]
        if c["_src"] == "b":
            if m == "start_trial":
                if c["exc"] is None and c["s1"] is not None:
                    just_started = c["ret"]
                    if c["ret"] in state:
                        bad("R3.lifecycle", "trial %s started twice" % c["ret"], c["s0"])
                    state[c["ret"]] = {"st": "new", "why": None, "pr": None}
            elif m == "resume_trial":
                st = state.get(t)
                if st is None or st["st"] != "ended" or st["why"] != "PAUSE":
                    bad("R3.resume_not_paused", "resume_trial(%s) while trial is %s/%s" % (
                        t, st and st["st"], st and st["why"]), c["s0"], frm=(st and st["why"]) or "none")
                if c["exc"] is None and c["s1"] is not None:
                    state[t] = {"st": "running", "why": None, "pr": None}
            elif m in ("pause_trial", "stop_trial"):
                st = state.get(t)
                want = "PAUSE" if m == "pause_trial" else "STOP"
                if st is None or st["st"] != "running" or st["pr"] != want:
                    bad("R3.stop_not_running", "%s(%s) while trial is %s (pending decision %s)" % (
                        m, t, st and st["st"], st and st["pr"]), c["s0"])
            continue
        # scheduler notifications
        if m == "suggest":
            continue
        st = state.get(t)
        if m == "on_trial_add":
            if st is None or st["st"] != "new" or just_started != t:
                bad("R4.add", "on_trial_add(%s) not right after its start" % t, c["s0"])
            else:
                st["st"] = "running"
            continue
        if st is None:
            bad("R4.unknown_trial", "%s for trial %s that was never started" % (m, t), c["s0"])
            continue
        if st["st"] == "new":
            bad("R4.add", "%s(%s) before on_trial_add" % (m, t), c["s0"])
            st["st"] = "running"
        if m == "on_trial_result":
            if st["st"] != "running" or st["pr"] is not None:
                bad("R4.result_not_running", "on_trial_result(%s) while trial is %s/%s" % (t, st["st"], st["why"] or st["pr"]),
                    c["s0"], was=st["why"] or st["pr"] or st["st"])
            if c["exc"] is None and c["ret"] in STOPPISH:
                st["pr"] = c["ret"]
        elif m == "on_trial_remove":
            if st["st"] != "running" or st["pr"] is None:
                bad("R4.remove", "on_trial_remove(%s) without a STOP/PAUSE decision (state %s)" % (t, st["st"]), c["s0"])
            st["st"], st["why"], st["pr"] = "ended", st["pr"] or "STOP", None
            st["fetch"] = cur_fetch(c["s0"])
        elif m == "on_trial_complete":
            if st["st"] != "running" or st["pr"] is not None:
                bad("R4.complete", "on_trial_complete(%s) while trial is %s/%s" % (t, st["st"], st["why"] or st["pr"]), c["s0"])
            st["st"], st["why"] = "ended", "complete"
            st["fetch"] = cur_fetch(c["s0"])
        elif m == "on_trial_error":
            if st["st"] == "ended" and st["why"] in STOPPISH and st.get("fetch") == cur_fetch(c["s0"]) \
                    and worker_failed_truth(tr, t, c["s0"]):
                # tolerated: the worker really crashed in the very poll in which the scheduler said STOP/PAUSE
                # (the back-end shows such a trial as paused; it stays "paused" here)
                probes["probe.remove_then_error_same_poll"] = probes.get("probe.remove_then_error_same_poll", 0) + 1
            elif st["st"] != "running" or st["pr"] is not None:
                bad("R4.error", "on_trial_error(%s) while trial is %s/%s" % (t, st["st"], st["why"] or st["pr"]), c["s0"])
            else:
                st["st"], st["why"] = "ended", "error"
                st["fetch"] = cur_fetch(c["s0"])
    # a STOP/PAUSE decision must have been followed by remove (unless the run raised)
    if tr.exception is None:
        for t, st in state.items():
            if st["pr"] is not None:
                bad("R4.remove_missing", "decision %s for trial %s never followed by on_trial_remove" % (st["pr"], t), None)
    # ---- R4e: every run that ended on its own before the last poll was notified ----
    last_fetch = tr.last_fetch_seq
    if tr.exception is not None and len(tr.fetches) >= 2:
        last_fetch = tr.fetches[-2]["sc"]
    elif tr.exception is not None:
        last_fetch = -1
    ends = {}
    for c in tr.sched:
        if c["m"] in ("on_trial_remove", "on_trial_complete", "on_trial_error"):
            ends.setdefault(c["trial"], []).append(c["s0"])
    for (t, run), r in sorted(tr.runs.items()):
        if r["end"] != "exit" or r["s1"] > last_fetch:
            continue
        nxt = [x for x in tr.runs_of(t) if x["run"] == run + 1]
        hi = nxt[0]["s0"] if nxt else float("inf")
        if not any(r["s0"] < s < hi for s in ends.get(t, [])):
            polled = any(t in f["status"] or str(t) in f["status"] for f in tr.fetches if f["s"] > r["s0"])
            bad("R4e.end_not_notified",
                "run %d of trial %s exited (code %s) before the last poll but the scheduler was never told" % (run, t, r["code"]),
                tr.observed_by(r["s1"]), nodelay=tr.scen["tuner"]["start_jobs_without_delay"], never_polled=not polled)
    return out
