"""Oracles: pure functions Trace -> [violation dict]."""


def V(prop, rule, tr, msg, seq=None, **tags):
    keys = dict(tr.keys())
    keys["rule"] = rule
    keys.update(tags)
    return {"prop": prop, "rule": rule, "msg": msg, "seq": seq, "keys": keys}


def evaluate(tr, props):
    from dst.oracles import registry

    out = []
    for p in props:
        fn = registry.ORACLES.get(p)
        if fn is None:
            continue
        out.extend(fn(tr))
    return out
