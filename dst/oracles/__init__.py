"""Oracles: pure functions Trace -> [violation dict]."""


def V(prop, rule, tr, msg, seq=None, **tags):
    keys = dict(tr.keys())
    keys["rule"] = rule
    keys.update(tags)
    return {"prop": prop, "rule": rule, "msg": msg, "seq": seq, "keys": keys}


def evaluate(tr, props):
    from dst.oracles import registry

    out = []
    for p in props:
        fn = registry.ORACLES.get(p)
        if fn is None:
            continue
        out.extend(fn(tr))
    from dst.oracles.c13 import first_failure_seq

    ff = first_failure_seq(tr)
    for v in out:
        v["keys"]["after_failure"] = bool(ff is not None and v.get("seq") is not None and v["seq"] > ff)
    return out
