"""C20 -- a checkpoint exists whenever a trial is resumed or warm-started from it."""
from dst.oracles import V


def check(tr):
    if tr.world not in ("mem", "local"):
        return []
    out = []
    scen = tr.scen
    speculative = bool(scen["scheduler"].get("early_ckpt_removal"))
    delete_on = scen["backend"]["delete_checkpoints"]
    state = {}  # trial -> running / paused / stopped / completed / failed
    removable = set()
    ever = set()
    ctx = None  # currently open top-level back-end call
    ended = False
    probes = tr.hist.counters
    # population-based training: a clone is decided in on_trial_result (STOP below max_t pushes (source, config) on a
    # stack) and carried out by a later suggest (pop).  Whether the source's checkpoint was still there when the
    # decision was taken tells a stale decision (KF4) from a source that should not have been eligible at all.
    pbt = scen["kind"] == "pbt"
    max_t = scen["scheduler"].get("max_t")
    decision_stack, clone_decided_at, deleted_at, last_call = [], None, {}, None

    def bad(rule, msg, seq, **tags):
        out.append(V("C20", rule, tr, msg, seq, **tags))

    for e in tr.events:
        k = e["k"]
        if k == "b.call":
            ctx = e
            m = e["m"]
            if m == "resume_trial":
                t = e["trial"]
                probes["probe.resumes"] = probes.get("probe.resumes", 0) + 1
                if t in ever and e.get("ck_exists") is False:
                    if not speculative:
                        bad("R3.resume_without_checkpoint", "trial %s resumed but its checkpoint was deleted" % t, e["s"])
                    else:
                        probes["probe.resumed_after_speculative_removal"] = probes.get("probe.resumed_after_speculative_removal", 0) + 1
            elif m == "start_trial" and e.get("ckpt") is not None:
                probes["probe.clones"] = probes.get("probe.clones", 0) + 1
                if e.get("src_exists") is False and e["ckpt"] in ever:
                    gone = bool(pbt and clone_decided_at is not None and deleted_at.get(e["ckpt"], float("inf")) < clone_decided_at)
                    bad("R4.clone_source_deleted", "new trial started from the checkpoint of trial %s which was deleted before (trial %s is %s%s)" % (
                        e["ckpt"], e["ckpt"], state.get(e["ckpt"]), ", already deleted when the clone was decided" if gone else ""),
                        e["s"], src_state=state.get(e["ckpt"]), gone_at_decision=gone)
            elif m == "stop_all":
                ended = True
        elif k in ("b.ret", "b.exc"):
            if k == "b.ret" and e["m"] in ("start_trial", "resume_trial") and e.get("ret") is not None:
                state[e["ret"]] = "running"
            ctx = None
        elif k == "w.ckpt":
            ever.add(e["trial"])
        elif k == "ck.copy":
            if e.get("src_exists"):
                ever.add(e["tgt"])
        elif k == "s.ckpt_removable":
            removable.update(e["trials"])
        elif k == "s.call":
            m = e["m"]
            last_call = e
            if m == "on_trial_complete":
                state[e["trial"]] = "completed"
            elif m == "on_trial_error":
                if state.get(e["trial"]) not in ("paused", "stopped"):
                    state[e["trial"]] = "failed"
        elif k == "s.ret" and e["m"] == "suggest":
            r = e.get("ret")
            if pbt and r is not None and r.get("new") and r.get("ckpt") is not None:
                clone_decided_at = decision_stack.pop() if decision_stack else None
        elif k == "s.ret" and e["m"] == "on_trial_result":
            if e.get("ret") == "STOP":
                state[e["trial"]] = "stopped"
                res = (last_call or {}).get("result") or {}
                if pbt and max_t is not None and res.get("epoch") is not None and int(res["epoch"]) < max_t:
                    decision_stack.append(e["s"])
            elif e.get("ret") == "PAUSE":
                state[e["trial"]] = "paused"
        elif k == "cb.tuning_end":
            ended = True
        elif k == "ck.delete":
            t = e["trial"]
            if not e.get("existed"):
                continue
            deleted_at.setdefault(t, e["s"])
            probes["probe.checkpoints_deleted"] = probes.get("probe.checkpoints_deleted", 0) + 1
            st = state.get(t)
            inside = ctx["m"] if ctx is not None else None
            if not delete_on:
                bad("R1.delete_although_off", "checkpoint of trial %s deleted although delete_checkpoints=False" % t, e["s"])
                continue
            if ended or inside == "stop_all":
                continue
            if inside == "stop_trial" and ctx.get("trial") == t:
                continue  # the scheduler stopped the trial
            if st in ("stopped", "completed", "failed"):
                continue
            if t in removable:
                continue
            if st == "paused" and speculative:
                probes["probe.speculative_removals"] = probes.get("probe.speculative_removals", 0) + 1
                continue
            if st == "running":
                bad("R1.delete_running", "checkpoint of running trial %s deleted (inside %s)" % (t, inside), e["s"], inside=inside)
            elif st == "paused":
                bad("R2.delete_paused", "checkpoint of paused trial %s deleted without speculative removal being requested (inside %s)" % (t, inside),
                    e["s"], inside=inside)
            else:
                bad("R1.delete_unjustified", "checkpoint of trial %s (state %s) deleted (inside %s)" % (t, st, inside), e["s"], inside=inside)
    return out
