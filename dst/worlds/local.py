"""W-LOCAL: the real LocalBackend (files, markers, checkpoint directories, retrieve()) with a
fake ``subprocess.Popen`` whose processes are scripted jobs stepped by the simulator."""
import json
import os
import shutil
from pathlib import Path

import syne_tune.backend.local_backend as m_lb
from syne_tune.backend.local_backend import LocalBackend
from syne_tune.report import retrieve

from dst.workers import WorkerRun, RESOURCE_ATTR

_CTX = {}


class FileSink:
    """Where a scripted job writes: the trial's std.out file and its checkpoint directory."""

    def __init__(self, sim, backend):
        self.sim = sim
        self.backend = backend
        self.emitted = {}  # trial -> number of reports written so far (ground truth for the parse probe)

    def _tp(self, trial_id):
        return self.backend.trial_path(trial_id)

    def emit(self, trial_id, text):
        with open(self._tp(trial_id) / "std.out", "a") as f:
            f.write(text)
            f.flush()

    def write_ckpt(self, trial_id, level):
        d = self.backend.checkpoint_trial_path(trial_id)
        os.makedirs(d, exist_ok=True)
        with open(d / "ckpt.json", "w") as f:
            json.dump({"level": level}, f)
        self.sim.log("w.ckpt", trial=trial_id, level=level)

    def read_ckpt(self, trial_id):
        p = self.backend.checkpoint_trial_path(trial_id) / "ckpt.json"
        if not p.exists():
            return None
        with open(p) as f:
            return json.load(f)["level"]

    def external_stop(self, trial_id):
        # the operator stops the job by hand: same marker the back-end itself writes
        (self._tp(trial_id) / "stop").touch()

    def on_exit(self, trial_id, run):
        pass


class SimProcess:
    """Stand-in for subprocess.Popen: a scripted job owned by the simulator."""

    def __init__(self, cmd, stdout=None, stderr=None, env=None, **kwargs):
        sim, job, backend, sink = _CTX["sim"], _CTX["job"], _CTX["backend"], _CTX["sink"]
        trial_path = Path(stdout.name).parent
        trial_id = int(trial_path.name)
        with open(trial_path / "config.json") as f:
            config = json.load(f)
        runs = backend.dst_runs.setdefault(trial_id, [])
        self.run = WorkerRun(sim, job, sink, trial_id, len(runs), config)
        runs.append(self.run)
        self.args = cmd

    def poll(self):
        return self.run.poll()

    def kill(self):
        self.run.kill()

    def wait(self, timeout=None):
        return self.run.poll()


class FakeSubprocess:
    Popen = SimProcess

    def __getattr__(self, name):
        import subprocess

        return getattr(subprocess, name)


class DstLocalBackend(LocalBackend):
    """LocalBackend + ground-truth logging.  Only additions: logging around checkpoint operations
    and 'resume from the level the trial was paused at' (see W-MEM)."""

    def dst_init(self, sim, job):
        self.dst_sim = sim
        self.dst_job = job
        self.dst_runs = {}
        self.dst_sink = FileSink(sim, self)

    def _pause_trial(self, trial_id, result):
        super()._pause_trial(trial_id, result)
        if result is not None and RESOURCE_ATTR in result:
            lv = self.dst_sink.read_ckpt(trial_id)
            if lv is not None and lv > int(result[RESOURCE_ATTR]):
                self.dst_sink.write_ckpt(trial_id, int(result[RESOURCE_ATTR]))

    # F12 slow reads: reading a file or polling a process takes (virtual) time, the jobs keep running meanwhile
    def stdout(self, trial_id):
        lat = getattr(self, "dst_latency", None)
        if lat is not None:
            lat.maybe("io", p_key="p_io")
        return super().stdout(trial_id)

    def _read_status(self, trial_id):
        lat = getattr(self, "dst_latency", None)
        if lat is not None:
            lat.maybe("io", p_key="p_io")
        return super()._read_status(trial_id)

    def copy_checkpoint(self, src_trial_id, tgt_trial_id):
        self.dst_sim.log("ck.copy", src=src_trial_id, tgt=tgt_trial_id,
                         src_exists=self.checkpoint_trial_path(src_trial_id).exists())
        super().copy_checkpoint(src_trial_id, tgt_trial_id)

    def delete_checkpoint(self, trial_id):
        self.dst_sim.log("ck.delete", trial=trial_id, existed=self.checkpoint_trial_path(trial_id).exists())
        super().delete_checkpoint(trial_id)

    def dst_truth(self, name, rec):
        if name == "resume_trial":
            return {"ck_exists": self.checkpoint_trial_path(rec.get("trial")).exists()}
        if name == "start_trial" and rec.get("ckpt") is not None:
            return {"src_exists": self.checkpoint_trial_path(rec["ckpt"]).exists()}
        if name == "fetch_status_results":
            # parse probe: what the stream parses to right now vs what the jobs have written
            parsed, emitted = {}, {}
            for t in rec.get("trials", []):
                try:
                    parsed[int(t)] = len(retrieve(log_lines=LocalBackend.stdout(self, trial_id=t)))
                except Exception as e:
                    parsed[int(t)] = "exc:%s" % type(e).__name__
                emitted[int(t)] = sum(r.n_reports for r in self.dst_runs.get(t, []))
            return {"parsed": parsed, "emitted": emitted}
        return {}

    def alive_trials(self):
        return sorted(t for t, runs in self.dst_runs.items() if runs and runs[-1].alive)

    def occupancy(self):
        return len(self.alive_trials())


def make_local_backend(scen, sim, job):
    m_lb.subprocess = FakeSubprocess()
    root = os.environ["SYNETUNE_FOLDER"]
    entry = os.path.join(root, "train_job.py")
    with open(entry, "w") as f:
        f.write("# scripted by the simulator\n")
    be = DstLocalBackend(entry_point=entry, delete_checkpoints=scen["backend"]["delete_checkpoints"], rotate_gpus=False)
    be.dst_init(sim, job)
    _CTX.update(sim=sim, job=job, backend=be, sink=be.dst_sink)
    return be
