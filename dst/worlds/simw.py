"""W-SIM: the real simulator back-end (UserBlackboxBackend -> SimulatorBackend) on a generated table.

Real code: event heap, SimulatedTimeKeeper, SimulatorCallback, BlackboxTabular lookup,
checkpoint-aware resume logic.  Stub: the table contents, the wall clock the back-end reads
for "time spent outside" (seams.OUTSIDE, bumped only by injected latency) and failure
injection (a harness subclass turning chosen runs into Status.failed)."""
import itertools

import numpy as np

from syne_tune.backend.trial_status import Status
from syne_tune.blackbox_repository.simulated_tabular_backend import UserBlackboxBackend
from syne_tune.backend.simulator_backend.simulator_backend import SimulatorConfig

from dst.simkit import hfloat, canon
from dst.workers import RESOURCE_ATTR, MAXRES_ATTR, hp_key

ELAPSED = "elapsed_time"


def table_rows(scen):
    """All configurations of the (finite) space, as list of dicts over the non-constant keys."""
    names, values = [], []
    for name, spec in scen["space"]:
        if spec[0] == "const":
            continue
        names.append(name)
        if spec[0] == "choice":
            values.append(list(spec[1]))
        elif spec[0] == "randint":
            values.append(list(range(spec[1], spec[2] + 1)))
        else:
            raise ValueError("W-SIM needs choice/randint domains, got %s" % spec[0])
    return names, [dict(zip(names, combo)) for combo in itertools.product(*values)]


def elapsed_increment(scen, hk, seed, level):
    sm = scen["sim"]
    mean = scen["script"]["pace"]["mean"]
    u = hfloat(scen["seed"], "elapsed", hk, seed, level)
    kind = sm["elapsed_kind"]
    if kind == "monotone":
        return mean * (0.2 + u)
    if kind == "noisy":  # some increments below the 0.01 floor the simulator documents
        return 0.001 * u if u < 0.3 else mean * (0.2 + u)
    return -0.5 * mean * u if u < 0.25 else mean * (0.2 + u)  # non-monotone


def table_value(scen, job, cfg, seed, level, name):
    """Ground truth of the table (recomputed independently by the C10 oracle)."""
    hk = hp_key(cfg, job.space_keys_tab)
    if name == ELAPSED:
        return sum(elapsed_increment(scen, hk, seed, l) for l in range(1, level + 1))
    i = job.metric_names.index(name)
    return job.value((hk, seed), level, name, job.signs[i])


def build_blackbox(scen, job):
    import pandas as pd
    from syne_tune.blackbox_repository.blackbox_tabular import BlackboxTabular
    from syne_tune.config_space import randint
    from dst import zoo

    names, rows = table_rows(scen)
    job.space_keys_tab = names
    S = scen["sim"]["n_seeds"]
    T = scen["scheduler"]["max_t"]
    objs = list(job.metric_names) + [ELAPSED]
    arr = np.zeros((len(rows), S, T, len(objs)))
    for i, cfg in enumerate(rows):
        for s in range(S):
            for l in range(1, T + 1):
                for j, nm in enumerate(objs):
                    arr[i, s, l - 1, j] = table_value(scen, job, cfg, s, l, nm)
    space = {k: v for k, v in zoo.build_space(scen).items() if k in names}
    bb = BlackboxTabular(
        hyperparameters=pd.DataFrame(rows, columns=names),
        configuration_space=space,
        fidelity_space={RESOURCE_ATTR: randint(1, T)},
        objectives_evaluations=arr,
        objectives_names=objs,
    )
    return bb


class FaultySimBackend(UserBlackboxBackend):
    """UserBlackboxBackend + ground-truth logging + failure injection (F1 for W-SIM)."""

    def dst_init(self, sim, scen, job):
        self.dst_sim = sim
        self.dst_scen = scen
        self.dst_job = job
        self.dst_runs = {}  # trial -> number of runs scheduled
        self.dst_cur = {}  # trial -> dict(run, idx, alive)
        self.dst_nstopcalls = 0

    def _sync_clock(self):
        try:
            self.dst_sim.now = self._time_keeper.time()
        except AssertionError:
            pass

    def _schedule(self, trial_id, config):
        super()._schedule(trial_id, config)
        self._sync_clock()
        run = self.dst_runs.get(trial_id, 0)
        self.dst_runs[trial_id] = run + 1
        self.dst_cur[trial_id] = {"run": run, "idx": 0, "alive": True}
        self.dst_sim.log("w.start", trial=trial_id, run=run, config=canon(config), tk=self._time_keeper.time())

    def _run_job_and_collect_results(self, trial_id, config=None):
        status, results = super()._run_job_and_collect_results(trial_id, config)
        cur = self.dst_cur[trial_id]
        run = cur["run"]
        sim = self.dst_sim
        # failure injection: the job dies when about to report the fault's level
        for fi, f in enumerate(self.dst_job.faults):
            if f.get("kind") != "crash" or f.get("trial") != trial_id:
                continue
            if f.get("run") is not None and f["run"] != run:
                continue
            lvl = f.get("level")
            keep = []
            hit = False
            for k, r in enumerate(results):
                if lvl == "first" or int(r[RESOURCE_ATTR]) == lvl:
                    hit = True
                    break
                keep.append(r)
            if hit:
                results = keep
                status = Status.failed
                sim.count("fault.F1_crash")
                sim.log("fault", kind="crash", trial=trial_id, run=run, level=lvl, idx=fi)
                break
        for r in results:
            sim.serial = getattr(sim, "serial", 0) + 1
            r["sn"] = sim.serial
        cur["plan"] = [(int(r[RESOURCE_ATTR]), r["sn"]) for r in results]
        cur["status"] = status
        sim.log("w.plan", trial=trial_id, run=run, status=status, seed=self._seed_for_trial.get(trial_id, self._seed),
                paused_at=self._resource_paused_for_trial.get(trial_id),
                results=[canon(r) for r in results], tk=self._time_keeper.time())
        return status, results

    def _process_on_trial_result_event(self, time_event, event):
        super()._process_on_trial_result_event(time_event, event)
        t = event.trial_id
        cur = self.dst_cur[t]
        res = event.result
        # position in the run's own sequence of reports (the order in which the job produced them), not the order in
        # in which the event heap happens to release them
        plan_sn = [sn for _, sn in cur.get("plan", [])]
        idx = plan_sn.index(res.get("sn")) if res.get("sn") in plan_sn else cur["idx"]
        self.dst_sim.log("w.report", trial=t, run=cur["run"], level=int(res[RESOURCE_ATTR]), idx=idx, sn=res.get("sn"),
                         values=canon({k: v for k, v in res.items()}), tk=time_event)
        cur["idx"] += 1

    def _process_complete_event(self, trial_id, time_event, status):
        super()._process_complete_event(trial_id, time_event, status)
        cur = self.dst_cur.get(trial_id)
        if cur is None or not cur["alive"]:
            return
        cur["alive"] = False
        if status in (Status.completed, Status.failed):
            self.dst_sim.log("w.exit", trial=trial_id, run=cur["run"], code=0 if status == Status.completed else 1, tk=time_event)
        else:
            self.dst_sim.log("w.killed", trial=trial_id, run=cur["run"], reason="kill", tk=time_event)

    def _stop_or_pause_trial(self, trial_id, status):
        self.dst_nstopcalls += 1
        super()._stop_or_pause_trial(trial_id, status)
        self._sync_clock()
        self.dst_sim.log("w.stopcall", trial=trial_id, status=status, tk=self._time_keeper.time())

    def fetch_status_results(self, trial_ids):
        out = super().fetch_status_results(trial_ids)
        self._sync_clock()
        self.dst_sim.log("tk", tk=self._time_keeper.time())
        return out

    def busy_trial_ids(self):
        out = super().busy_trial_ids()
        self._sync_clock()
        return out

    def alive_trials(self):
        return sorted(t for t, c in self.dst_cur.items() if c["alive"])

    def dst_truth(self, name, rec):
        return {}


def make_sim_backend(scen, sim, job):
    sm = scen["sim"]
    bb = build_blackbox(scen, job)
    d = sm["delays"]
    cfg = SimulatorConfig(
        delay_on_trial_result=d["on_trial_result"], delay_complete_after_final_report=d["complete_after_final_report"],
        delay_complete_after_stop=d["complete_after_stop"], delay_start=d["start"], delay_stop=d["stop"],
    )
    be = FaultySimBackend(
        blackbox=bb, elapsed_time_attr=ELAPSED,
        max_resource_attr=MAXRES_ATTR if scen["scheduler"]["use_maxres"] else None,
        seed=sm["fixed_seed"], support_checkpointing=sm["support_checkpointing"],
        simulator_config=cfg, tuner_sleep_time=sm["tuner_sleep_time"],
    )
    be.dst_init(sim, scen, job)
    return be
