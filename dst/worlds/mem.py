"""W-MEM: an in-memory TrialBackend subclass.

Real code: the generic ``TrialBackend`` logic (start/resume/pause/stop/stop_all/
fetch_status_results/new_trial_id) and the wire format (``Reporter`` ->
``retrieve``).  Stub: workers, the per-trial output stream and the checkpoint
store, all owned by the simulator.  The status logic mirrors ``LocalBackend``
(stop marker, pause marker, else exit code); an optional asynchronous stop
mirrors ``SageMakerBackend`` (job keeps its worker for a while after stop)."""
import io
from pathlib import Path

from syne_tune.backend.trial_backend import TrialBackend, BUSY_STATUS
from syne_tune.backend.trial_status import Status
from syne_tune.report import retrieve

from dst.workers import WorkerRun
from dst.seams import SimDateTime


class MemBackend(TrialBackend):
    def __init__(self, sim, job, delete_checkpoints=False, async_stop=0.0):
        super().__init__(delete_checkpoints=delete_checkpoints)
        self.sim = sim
        self.job = job
        self.async_stop = async_stop
        self.text = {}  # trial -> list of chunks
        self.ckpt = {}  # trial -> level of last checkpoint written
        self.marker = {}  # trial -> "stop" | "pause"
        self.runs = {}  # trial -> [WorkerRun]
        self.busy_until = {}  # trial -> virtual time until which its asynchronously stopped job reports "stopping"
        self.lingering = []  # [trial, until]: worker slots still held by asynchronously stopped jobs
        self.end_time = {}

    # ---- sink interface used by WorkerRun --------------------------------
    def emit(self, trial_id, text):
        self.text.setdefault(trial_id, []).append(text)

    def write_ckpt(self, trial_id, level):
        self.ckpt[trial_id] = level
        self.sim.log("w.ckpt", trial=trial_id, level=level)

    def read_ckpt(self, trial_id):
        return self.ckpt.get(trial_id)

    def external_stop(self, trial_id):
        self.marker[trial_id] = "stop"

    def on_exit(self, trial_id, run):
        pass

    # ---- TrialBackend interface ------------------------------------------
    def _schedule(self, trial_id, config):
        runs = self.runs.setdefault(trial_id, [])
        run = WorkerRun(self.sim, self.job, self, trial_id, len(runs), config)
        runs.append(run)

    def _cur(self, trial_id):
        return self.runs[trial_id][-1]

    def _status(self, trial_id):
        m = self.marker.get(trial_id)
        if m == "stop":
            if self.busy_until.get(trial_id, -1.0) > self.sim.now:
                return Status.stopping
            return Status.stopped
        if m == "pause":
            return Status.paused
        code = self._cur(trial_id).poll()
        if code is None:
            return Status.in_progress
        return Status.completed if code == 0 else Status.failed

    def _all_trial_results(self, trial_ids):
        res = []
        for trial_id in trial_ids:
            status = self._status(trial_id)
            if status == Status.in_progress:
                end = SimDateTime.now()
            else:
                end = self.end_time.setdefault(trial_id, SimDateTime.now())
            metrics = retrieve(log_lines=self.stdout(trial_id))
            res.append(
                self._trial_dict[trial_id].add_results(
                    metrics=metrics, status=status, training_end_time=end
                )
            )
        return res

    def _kill(self, trial_id):
        run = self._cur(trial_id)
        if self.async_stop > 0 and run.alive:
            self.busy_until[trial_id] = self.sim.now + self.async_stop
            self.lingering.append([trial_id, self.sim.now + self.async_stop])
            self.sim.count("fault.F6_async_stop")
            self.sim.log("w.linger", trial=trial_id, until=self.sim.now + self.async_stop)
        run.kill()

    def _pause_trial(self, trial_id, result):
        self.marker[trial_id] = "pause"
        self._kill(trial_id)
        # The job resumes from the level it was paused at (as the blackbox simulator models it), not from a
        # checkpoint it wrote while the pause decision was under way: a script that skips a rung level on
        # resume is outside every property's quantifier.
        from dst.workers import RESOURCE_ATTR

        if result is not None and RESOURCE_ATTR in result and trial_id in self.ckpt:
            self.ckpt[trial_id] = min(self.ckpt[trial_id], int(result[RESOURCE_ATTR]))

    def _resume_trial(self, trial_id):
        if self.marker.get(trial_id) == "pause":
            del self.marker[trial_id]
        self.end_time.pop(trial_id, None)

    def _stop_trial(self, trial_id, result):
        self.marker[trial_id] = "stop"
        self._kill(trial_id)

    def dst_truth(self, name, rec):
        """Ground truth added to back-end call records (checkpoint store)."""
        if name == "resume_trial":
            return {"ck_exists": rec.get("trial") in self.ckpt, "ck_level": self.ckpt.get(rec.get("trial"))}
        if name == "start_trial" and rec.get("ckpt") is not None:
            return {"src_exists": rec["ckpt"] in self.ckpt}
        if name == "fetch_status_results":
            parsed, emitted = {}, {}
            for t in rec.get("trials", []):
                try:
                    parsed[int(t)] = len(retrieve(log_lines=self.stdout(t)))
                except Exception as e:
                    parsed[int(t)] = "exc:%s" % type(e).__name__
                emitted[int(t)] = sum(r.n_reports for r in self.runs.get(t, []))
            return {"parsed": parsed, "emitted": emitted}
        return {}

    def copy_checkpoint(self, src_trial_id, tgt_trial_id):
        self.sim.log("ck.copy", src=src_trial_id, tgt=tgt_trial_id, src_exists=src_trial_id in self.ckpt)
        if src_trial_id not in self.ckpt:
            # mirrors shutil.copytree of a missing directory
            raise FileNotFoundError(f"checkpoint of trial {src_trial_id} does not exist")
        self.ckpt[tgt_trial_id] = self.ckpt[src_trial_id]

    def delete_checkpoint(self, trial_id):
        self.sim.log("ck.delete", trial=trial_id, existed=trial_id in self.ckpt)
        self.ckpt.pop(trial_id, None)

    def busy_trial_ids(self):
        out = [(t, Status.stopping) for t, until in self.lingering if until > self.sim.now]
        for trial_id in self.trial_ids:
            if trial_id in self.runs and self._cur(trial_id).alive:
                out.append((trial_id, Status.in_progress))
        return out

    def stdout(self, trial_id):
        return io.StringIO("".join(self.text.get(trial_id, []))).readlines()

    def stderr(self, trial_id):
        return []

    def entrypoint_path(self):
        return Path("mem_job.py")

    def set_entrypoint(self, entry_point):
        pass

    # ---- ground truth for oracles ------------------------------------------
    def occupancy(self):
        """Number of worker slots in use: live processes + asynchronously stopping jobs."""
        n = sum(1 for runs in self.runs.values() if runs[-1].alive)
        n += sum(1 for _, until in self.lingering if until > self.sim.now)
        return n

    def alive_trials(self):
        return sorted(t for t, runs in self.runs.items() if runs[-1].alive)

    def ckpt_exists(self, trial_id):
        return trial_id in self.ckpt
