"""Scripted training jobs: the processes that run concurrently with the tuning loop.

A job is a deterministic function of the scenario: which levels it reports, what
values, how long each epoch takes, whether it checkpoints, and where it crashes.
The same model drives W-MEM (in-memory stream) and W-LOCAL (real files)."""
import contextlib
import io
import json

from dst.simkit import hfloat, canon

RESOURCE_ATTR = "epoch"
COST_ATTR = "cost"
MAXRES_ATTR = "epochs"  # name of max_resource_attr inside configs


def hp_key(config, space_keys):
    return json.dumps(canon({k: config.get(k) for k in space_keys}), sort_keys=True)


class JobModel:
    def __init__(self, scen):
        self.scen = scen
        s = scen["script"]
        self.s = s
        self.table_seed = scen.get("table_seed", scen["seed"])
        self.space_keys = sorted(k for k in scen["space_keys"])
        self.metric_names = scen["metrics"]  # list of metric names reported
        self.signs = scen.get("signs", [1.0] * len(self.metric_names))
        self.ties = s.get("ties", 0)
        self.max_epochs = s["max_epochs"]
        self.honour = s.get("honour_max_resource", True)
        self.checkpointing = s.get("checkpointing", True)
        self.pace = s.get("pace", {"kind": "even", "mean": 1.0})
        self.faults = scen.get("faults", [])

    # ---- ground-truth values -------------------------------------------
    def value(self, hpkey, level, name, sign=1.0):
        u1 = hfloat(self.table_seed, "cfg", hpkey, name)
        u2 = hfloat(self.table_seed, "lvl", hpkey, level, name)
        w = self.s.get("level_noise", 0.4)  # how much of the value changes from level to level (rank flips between rungs)
        v = (1.0 - w) * u1 + w * u2
        if self.ties:
            v = round(v * self.ties) / self.ties
        return sign * v

    def report_dict(self, config, level, start_level=1):
        hk = hp_key(config, self.space_keys)
        d = {RESOURCE_ATTR: level}
        for name, sign in zip(self.metric_names, self.signs):
            d[name] = self.value(hk, level, name, sign)
        pn = self.s.get("nan_metric")
        if pn:
            u = hfloat(self.table_seed, "nanm", hk)
            if u < pn and (level == self.max_epochs or self.s.get("nan_all_levels")):
                d[self.metric_names[0]] = float("nan") if (u < pn / 2 or self.s.get("nan_all_levels")) else float("inf")
        if self.s.get("cost", False):
            c = 0.0
            for l in range(start_level, level + 1):  # cost since the start of this run
                c += 0.25 + hfloat(self.table_seed, "cost", hk, l)
            d[COST_ATTR] = c
        pl = self.s.get("payload")
        if pl:
            import numpy as np

            u = hfloat(self.table_seed, "payload", hk, level)
            pool_str = ["a{b}[c]", "x]: {\"k\": 1}", "line1\nline2", "quote\" back\\slash", "caf\u00e9 \u2603", "[tune-metric]: {\"epoch\": 99}",
                        "}{", "", "tab\there", "ls\u2028x}", "ps\u2029{y", "nel\u0085z", "vt\x0bff\x0cfs\x1cgs\x1drs\x1e", "\U0001f600 \ud7ff"]
            if "str" in pl:
                d["p_str"] = pool_str[int(u * len(pool_str))]
            if "nested" in pl:
                d["p_nested"] = {"a": [1, 2.5, {"b": pool_str[int(u * len(pool_str))]}], "c": [[], {}], "d": None if u < 0.5 else True}
            if "numpy" in pl:
                d["p_np"] = [np.float32(0.5), np.int64(7), np.bool_(u < 0.5), np.float64(u)][int(u * 4)]
                if int(u * 4) == 1:
                    # integer scalars of several widths, some beyond 2**53 (not representable as a double:
                    # a conversion that detours through float alters them)
                    pool_int = [np.int64(7), np.int64(2 ** 53 + 1), np.int64(-(2 ** 62) - 3), np.uint64(2 ** 63 - 25),
                                np.int32(-5), np.uint8(200), np.int64(1758931200123456789)]
                    d["p_np"] = pool_int[int(hfloat(self.table_seed, "npint", hk, level) * len(pool_int))]
            if "cr" in pl and u < 0.3:
                d["p_cr"] = "cr\rlf"  # a carriage return inside a string value
            if "inf" in pl:
                d["p_inf"] = [float("inf"), float("-inf"), float("nan"), 1e308][int(u * 4)]
        ex = self.s.get("extra", None)
        if ex:
            u = hfloat(self.table_seed, "extra", hk, level)
            if "str" in ex:
                d["note"] = "lvl%d" % level if u < 0.8 else "a{b}[c]"
            if "nan" in ex:
                d["aux"] = float("nan") if u < 0.3 else u
            if "int" in ex:
                d["cnt"] = int(u * 100)
        lk = self.s.get("late_key")
        if lk and level >= lk:
            d["late_val"] = round(hfloat(self.table_seed, "late", hk, level), 6)
        if self.s.get("shuffle_keys"):
            keys = sorted(d, key=lambda k: hfloat(self.table_seed, "korder", hk, level, k))
            d = {k: d[k] for k in keys}
        return d

    # ---- timing ----------------------------------------------------------
    def duration(self, trial_id, run, level):
        kind = self.pace.get("kind", "even")
        mean = self.pace.get("mean", 1.0)
        u = hfloat(self.scen["seed"], "dur", trial_id, run, level)
        if kind == "even":
            return mean
        if kind == "jitter":
            return mean * (0.25 + 1.5 * u)
        if kind == "bursty":  # some epochs take no time: several reports at one instant
            return 0.0 if u < self.pace.get("p0", 0.4) else mean * (0.5 + u)
        if kind == "stall":  # occasionally a very long epoch
            return mean * (20.0 if u < self.pace.get("pstall", 0.1) else 0.5 + u)
        if kind == "pertrial":  # fast and slow trials
            f = 0.2 + 3.0 * hfloat(self.scen["seed"], "speed", trial_id)
            return mean * f * (0.8 + 0.4 * u)
        return mean

    def startup(self, trial_id, run):
        return self.s.get("startup", 0.0) * hfloat(self.scen["seed"], "startup", trial_id, run)

    def exit_delay(self, trial_id, run):
        return self.s.get("exit_delay", 0.0) * hfloat(self.scen["seed"], "exitd", trial_id, run)

    # ---- plan ------------------------------------------------------------
    def level_range(self, config, ckpt_level):
        start = (ckpt_level + 1) if (self.checkpointing and ckpt_level) else 1
        end = self.max_epochs
        if self.honour and MAXRES_ATTR in config:
            end = min(end, int(config[MAXRES_ATTR]))
        ef = self.s.get("early_finish")
        if ef and hfloat(self.table_seed, "earlyfin", hp_key(config, self.space_keys)) < ef["p"]:
            end = min(end, max(ef["at"], start))
        if start > end:  # checkpoint already at/after the end: redo the last epoch (a script must report)
            start = end
        return start, end

    def fault_at(self, trial_id, run, level, first):
        """Fault that fires when run `run` of `trial_id` is about to report `level`."""
        for i, f in enumerate(self.faults):
            if f.get("trial") != trial_id:
                continue
            if f.get("run") is not None and f["run"] != run:
                continue
            if f.get("level") == level or (f.get("level") == "first" and first):
                return i, f
        return None, None


class WorkerRun:
    """One OS-process-like execution of the job for (trial, run)."""

    def __init__(self, sim, job, sink, trial_id, run, config):
        self.sim = sim
        self.job = job
        self.sink = sink
        self.trial_id = trial_id
        self.run = run
        self.config = dict(config)
        self.alive = True
        self.exit_code = None
        self.killed = False
        self.n_reports = 0
        self.reporter = None
        ck = sink.read_ckpt(trial_id)
        self.start_level, self.end_level = job.level_range(self.config, ck)
        self.level = self.start_level
        sim.log(
            "w.start", trial=trial_id, run=run, frm=self.start_level, to=self.end_level,
            ckpt=ck, config=canon(self.config),
        )
        if job.s.get("noreport_exit0") and trial_id in job.s.get("noreport_trials", []):
            sim.after(job.startup(trial_id, run) + 0.5, self._exit0_noreport)
        else:
            sim.after(job.startup(trial_id, run) + job.duration(trial_id, run, self.level), self._epoch)

    def _exit0_noreport(self):
        if not self.alive:
            return
        self.sim.count("fault.F3_exit0_noreport")
        self._exit(0)

    def _make_reporter(self):
        from syne_tune.report import Reporter

        self.reporter = Reporter(add_cost=False)

    def _epoch(self):
        if not self.alive:
            return
        job, sim = self.job, self.sim
        if self.level > self.end_level:
            self._exit(0)
            return
        idx, f = job.fault_at(self.trial_id, self.run, self.level, self.n_reports == 0)
        if f is not None:
            kind = f["kind"]
            if kind == "crash":
                sim.count("fault.F1_crash")
                sim.log("fault", kind="crash", trial=self.trial_id, run=self.run, level=self.level, idx=idx)
                self._exit(f.get("code", 1))
                return
            if kind == "extstop":
                sim.count("fault.F2_external_stop")
                sim.log("fault", kind="extstop", trial=self.trial_id, run=self.run, level=self.level, idx=idx)
                self.sink.external_stop(self.trial_id)
                self.kill(reason="external")
                return
        if self.reporter is None:
            self._make_reporter()
        for line in self._noise():
            self.sink.emit(self.trial_id, line)
        self._attempt_rejected_report()
        if job.checkpointing:
            self.sink.write_ckpt(self.trial_id, self.level)
        k = job.s.get("report_every")
        if k and self.level % k != 0 and self.level != self.end_level:
            # this epoch is trained (and checkpointed, above) but not reported
            self.level += 1
            sim.after(job.duration(self.trial_id, self.run, self.level), self._epoch)
            return
        pr = job.s.get("repeat_level")
        if pr and hfloat(job.table_seed, "repeat", self.trial_id, self.run, self.level) < pr:
            # the script reports twice for the same resource value (say mid-epoch and end-of-epoch), with different metrics
            self._report(variant="mid")
            sim.count("probe.level_reported_twice")
        self._report()
        self.level += 1
        if self.level > self.end_level:
            sim.after(job.exit_delay(self.trial_id, self.run), lambda: self._exit(0))
        else:
            sim.after(job.duration(self.trial_id, self.run, self.level), self._epoch)

    def _report(self, variant=None):
        job, sim = self.job, self.sim
        rd = job.report_dict(self.config, self.level, self.start_level)
        if variant:
            hk = hp_key(self.config, job.space_keys)
            for name, sign in zip(job.metric_names, job.signs):
                if isinstance(rd.get(name), float) and rd[name] == rd[name]:
                    rd[name] = job.value(hk, self.level, name + "#" + variant, sign)
        sim.serial = getattr(sim, "serial", 0) + 1
        rd["sn"] = sim.serial  # unique serial: lets oracles attribute every delivered result to one report
        buf = io.StringIO()
        with contextlib.redirect_stdout(buf):
            self.reporter(**dict(rd))
        text = buf.getvalue()
        self.sink.emit(self.trial_id, text)
        self.n_reports += 1
        sim.log(
            "w.report", trial=self.trial_id, run=self.run, level=self.level,
            idx=self.n_reports - 1, sn=rd["sn"], values=canon(rd),
        )

    def _attempt_rejected_report(self):
        """F11: the script tries to report something the protocol must reject at the reporting side."""
        rej = self.job.s.get("rejects")
        if not rej:
            return
        u = hfloat(self.job.scen["seed"], "rej", self.trial_id, self.run, self.level)
        if u > rej.get("p", 0.3):
            return
        kind = rej["kinds"][int(hfloat(u, "k") * len(rej["kinds"]))]
        if kind == "reserved":
            payload = {RESOURCE_ATTR: self.level, "st_bad": 1.0}
        elif kind == "unserialisable_set":
            payload = {RESOURCE_ATTR: self.level, "bad": {1, 2}}
        elif kind == "unserialisable_obj":
            payload = {RESOURCE_ATTR: self.level, "bad": object()}
        elif kind == "ndarray":
            import numpy as np

            payload = {RESOURCE_ATTR: self.level, "bad": np.arange(3)}
        elif kind == "nonstr_key_np":
            import numpy as np

            payload = {RESOURCE_ATTR: self.level, "bad": {np.int64(1): 2.0, "ok": 1.0}}  # a key JSON cannot represent
        elif kind == "nonstr_key_tuple":
            payload = {RESOURCE_ATTR: self.level, "bad": [{"n": 1}, {(1, 2): 3}]}
        elif kind == "oversize":
            payload = {RESOURCE_ATTR: self.level, "bad": "x" * 60000}
        else:
            payload = {RESOURCE_ATTR: self.level, "bad": None}
        # a defensive script catches the rejection and (sometimes) simply tries the same report once more
        for attempt in range(2 if hfloat(u, "retry") < 0.4 else 1):
            buf = io.StringIO()
            raised, exc = False, None
            it0 = getattr(self.reporter, "iter", None)
            try:
                with contextlib.redirect_stdout(buf):
                    self.reporter(**payload)
            except BaseException as e:  # a script may catch this and carry on
                raised, exc = True, type(e).__name__
            text = buf.getvalue()
            # whatever the reporter printed before raising is on the stream (as it would be for a real script)
            if text:
                self.sink.emit(self.trial_id, text)
            wrote_tag = "[tune-metric]" in text
            if raised and it0 is not None:
                self.reporter.iter = it0 if not wrote_tag else self.reporter.iter
            self.sim.count("fault.F11_rejected_report_attempt")
            self.sim.log("w.reject", trial=self.trial_id, run=self.run, level=self.level, kind=kind, raised=raised, exc=exc,
                         wrote_report=wrote_tag)
            if not raised:
                self.n_reports += 1  # it went through: the stream now holds one more report
            if not raised:
                break

    def _noise(self):
        n = self.job.s.get("noise", 0)
        if not n:
            return []
        u = hfloat(self.job.scen["seed"], "noise", self.trial_id, self.run, self.level)
        k = int(u * (n + 1))
        pool = [
            "epoch done\n", "{'not': 'a report'}\n", "[tune] {broken\n", "x={1:2}\n",
            "café ☃ }\n", "] [ } {\n", "no newline at end", '"quoted" \\ backslash\n', "\n",
            "\u2588" * 60 + "\n", "\u8a13\u7df4\u4e2d \u9032\u6357 " * 8 + "\n", "progress 50%\r\n", "\u00e4\u00f6\u00fc \u00df\u00e9\u00e8 \u00f1 \u20ac\r\n",
        ]
        return [pool[int(hfloat(u, i) * len(pool))] for i in range(k)]

    def _exit(self, code):
        if not self.alive:
            return
        self.alive = False
        self.exit_code = code
        self.sim.log("w.exit", trial=self.trial_id, run=self.run, code=code)
        self.sink.on_exit(self.trial_id, self)

    def kill(self, reason="kill"):
        if not self.alive:
            return
        self.alive = False
        self.killed = True
        self.exit_code = -9
        self.sim.log("w.killed", trial=self.trial_id, run=self.run, reason=reason)
        self.sink.on_exit(self.trial_id, self)

    def poll(self):
        return None if self.alive else self.exit_code
