"""Generate /verif/seeded/README.md from the meta.json / result.json files."""
import json, os
VERIF = os.path.dirname(os.path.dirname(os.path.abspath(__file__)))
d = os.path.join(VERIF, "seeded")
rows = []
for name in sorted(os.listdir(d)):
    p = os.path.join(d, name)
    if not os.path.isdir(p) or not os.path.exists(os.path.join(p, "meta.json")):
        continue
    m = json.load(open(os.path.join(p, "meta.json")))
    r = json.load(open(os.path.join(p, "result.json"))) if os.path.exists(os.path.join(p, "result.json")) else {}
    ran = sorted({k.split("@")[0] for k in r.get("runs", {})})
    rows.append((name, m["property"], m["what"], m.get("needs", ""), ran, r.get("detected_by", []), r.get("repo_head", "")))
out = ["# Seeded changes (sensitivity of the checks)", "",
       "Each directory holds `patch.diff` (applies to /repo with `git -C /repo apply`; `revert-*` ones are fix commits applied in",
       "reverse), the demonstration of the sub-agent that wrote it (`demo_*.py`, fails with the change, passes without), `meta.json` and",
       "`result.json` (written by `dst/seeded_eval.py <id>`: the quick checks listed were run with the change applied to /repo, which was",
       "restored afterwards). `C*` changes were written by independent sub-agents that saw only the property text and a scratch worktree;",
       "each was confirmed here (demo fails with / passes without the change; the repository's test-suite passes with it).", "",
       "| id | property | change | needs | quick checks run | reported VIOLATION |", "|---|---|---|---|---|---|"]
for name, prop, what, needs, ran, det, head in rows:
    out.append("| %s | %s | %s | %s | %s | %s |" % (name, prop, what.replace("|", "/"), needs.replace("|", "/"), " ".join(ran), " ".join(det) or "**none**"))
out += ["", "History: the first versions of the checks missed `C06`, `C10` (by its own check), `C11`, `C14`, `C16` and `C20`; the workload",
        "generator and three oracles were strengthened (NaN/inf metric values, `restrict_configurations`, `allow_duplicates`, delivered-stream",
        "rule for C10, level-presence rule for `rungs_and_last` in C14, NaN-reporting scripts for synchronous Hyperband) until each was reported.", ""]
nk = os.path.join(d, "not-kept")
if os.path.isdir(nk):
    out += ["## Proposed by sub-agents, not kept", ""]
    for name in sorted(os.listdir(nk)):
        note = os.path.join(nk, name, "NOTE.md")
        if os.path.exists(note):
            out.append("* `not-kept/%s`: %s" % (name, open(note).read().strip().replace("\n", " ")))
    out += ["* three further proposals repeated a mechanism that was already kept (`C02` fourth round = `C18-r3`, `C13` fifth round = `C14-r4`, `C02` eighth round = `C01-r6`) and were dropped.", ""]
open(os.path.join(d, "README.md"), "w").write("\n".join(out))
print("\n".join(out[9:9 + len(rows) + 2]))
