"""Triage tool: run N scenarios, tally violations by (prop, rule, tags)."""
import argparse
import json
import os
import sys
import time
from collections import Counter, defaultdict

sys.path.insert(0, os.path.dirname(os.path.dirname(os.path.abspath(__file__))))
from dst import boot  # noqa

if __name__ == "__main__":
    boot.reexec_if_needed()
    boot.boot()
    from dst import runner, profiles

    ap = argparse.ArgumentParser()
    ap.add_argument("props")
    ap.add_argument("--n", type=int, default=200)
    ap.add_argument("--seed", default="0")
    ap.add_argument("--profile", default=None, help="property id whose profile to use (default: first prop)")
    ap.add_argument("--override", default=None, help="JSON dict merged into the profile")
    ap.add_argument("--show", type=int, default=3)
    ap.add_argument("--raw", action="store_true")
    ap.add_argument("--nproc", type=int, default=16)
    ap.add_argument("--timeout", type=float, default=40)
    a = ap.parse_args()
    props = a.props.split(",")
    pid = a.profile or props[0]
    specs = profiles.specs_for(pid, a.seed, a.n, "explore")
    if a.override:
        ov = json.loads(a.override)
        for s in specs:
            s["profile"] = dict(s.get("profile") or {}, **ov)
    t0 = time.time()
    from dst.oracles import registry
    allprops = list(registry.ORACLES)
    res = runner.run_batch(specs, allprops, nproc=a.nproc, timeout=a.timeout)
    wall = time.time() - t0
    tally = Counter()
    ex = defaultdict(list)
    herr = Counter()
    excs = Counter()
    kinds = Counter()
    counters = Counter()
    nbuild = 0
    for r in res:
        if r is None:
            continue
        if r.get("harness_error"):
            herr[r["harness_error"][:100]] += 1
            if len(ex[("H", r["harness_error"][:60])]) < 2:
                ex[("H", r["harness_error"][:60])].append((r.get("root"), r.get("tb", "")[-800:]))
            continue
        if r.get("build_error"):
            nbuild += 1
            herr["build: " + r["build_error"][:90]] += 1
            continue
        kinds[r["kind"]] += 1
        for k, v in (r.get("counters") or {}).items():
            counters[k] += v
        if r.get("exc"):
            excs[(r["kind"], r["exc"]["type"], r["exc"]["where"], r["exc"]["msg"][:50])] += 1
        seen = set()
        from dst import findings
        entries = findings.load()
        vs = r.get("viol", [])
        if not a.raw:
            vs, hits, _ = findings.triage(entries, vs)
            for e_, _v in hits:
                tally[("KNOWN", e_["id"], "")] += 1
        for v in vs:
            if v["prop"] not in props:
                continue
            key = (v["prop"], v["rule"], json.dumps({k: x for k, x in v["keys"].items() if k not in ("rule",)}, sort_keys=True))
            if key in seen:
                continue
            seen.add(key)
            tally[key] += 1
            if len(ex[key]) < a.show:
                ex[key].append((r["root"], v["msg"]))
    print("runs %d in %.1fs (%.1f/s)  build_errors %d" % (len(res), wall, len(res) / wall, nbuild))
    print("kinds", dict(kinds))
    print("harness errors:", dict(herr))
    for k, v in ex.items():
        if k[0] == "H":
            print(k, v)
    print("exceptions out of run():")
    for k, v in excs.most_common(40):
        print("   ", v, k)
    print("violations (runs affected):")
    for k, v in sorted(tally.items(), key=lambda kv: (kv[0][0], kv[0][1], -kv[1])):
        print("   ", v, k)
        for e in ex[k]:
            print("         ", e)
    print("counters", {k: v for k, v in sorted(counters.items())})
