"""Scenario space: spaces, schedulers, tuner options, job scripts, fault plans.

``gen_scenario(root, profile)`` is a pure function of its arguments and returns an
explicit JSON-able scenario; ``build_*`` turn a scenario into real syne_tune
objects.  Every run draws its own small configuration (swarm testing)."""
import copy

from dst.simkit import HRng
from dst.workers import RESOURCE_ATTR, COST_ATTR, MAXRES_ATTR

MODEL_FREE = [
    "fifo_random", "fifo_grid", "hb_stopping", "hb_promotion", "hb_pasha", "hb_cost_promotion",
    "hb_rush_stopping", "hb_rush_promotion", "sync_hb", "sync_hb_custom", "dehb", "pbt", "moasha", "median", "rea",
]
GP_KINDS = ["fifo_bo", "hb_stopping_bo", "hb_promotion_bo", "hb_hypertune", "hb_dyhpo", "sync_hb_bo"]
ALL_KINDS = MODEL_FREE + GP_KINDS

HB_TYPES = {
    "hb_stopping": "stopping", "hb_promotion": "promotion", "hb_pasha": "pasha",
    "hb_cost_promotion": "cost_promotion", "hb_rush_stopping": "rush_stopping",
    "hb_rush_promotion": "rush_promotion", "hb_stopping_bo": "stopping",
    "hb_promotion_bo": "promotion", "hb_hypertune": None, "hb_dyhpo": "dyhpo",
}
PAUSE_RESUME = {"hb_promotion", "hb_pasha", "hb_cost_promotion", "hb_rush_promotion", "hb_promotion_bo",
                "hb_dyhpo", "sync_hb", "sync_hb_custom", "sync_hb_bo", "dehb"}


# --------------------------------------------------------------------------
# spaces
# --------------------------------------------------------------------------
def gen_domain(r, finite=False, numeric=False, simple=False):
    kinds = ["choice", "randint", "finrange", "ordinal", "logfinrange", "lograndint"]
    if simple:
        kinds = ["choice", "randint", "ordinal"]  # enumerable spaces (restrict_configurations can list them)
    if not finite:
        kinds += ["uniform", "loguniform", "reverseloguniform", "quniform", "qloguniform", "qrandint", "uniform", "loguniform"]
    if numeric:
        kinds = [k for k in kinds if k not in ("choice",)]
    k = r.choice(kinds)
    if k == "choice":
        n = r.randint(1, 4)
        pool = r.choice([["a", "b", "c", "d"], ["relu", "tanh", "x y", "z"], [1, 2, 3, 5]])
        return [k, pool[:n]]
    if k == "randint":
        lo = r.randint(-3, 5)
        return [k, lo, lo + r.randint(0, 6)]
    if k == "lograndint":
        lo = r.randint(1, 4)
        return [k, lo, lo + r.randint(0, 30)]
    if k == "finrange":
        if r.chance(0.2):
            lo, size, step = r.randint(-2, 3), r.randint(1, 5), r.randint(1, 3)
            return [k, lo, lo + (size - 1) * step if size > 1 else lo + 1, size, True]
        lo = r.uniform(-1, 1)
        return [k, lo, lo + r.uniform(0.1, 3), r.randint(1, 5), False]
    if k == "logfinrange":
        lo = r.uniform(0.01, 1)
        return [k, lo, lo * r.uniform(1.5, 100), r.randint(1, 5), False]
    if k == "ordinal":
        n = r.randint(1, 5)
        vals = sorted(set(round(r.uniform(0.1, 10), 2) for _ in range(n)))
        return [k, vals, r.choice(["equal", "nn", "nn-log"]) if len(vals) > 1 else "equal"]
    if k == "uniform":
        lo = r.uniform(-2, 2)
        return [k, lo, lo + r.uniform(0.01, 5)]
    if k == "loguniform":
        lo = r.uniform(1e-4, 1)
        return [k, lo, lo * r.uniform(1.1, 1000)]
    if k == "reverseloguniform":
        return [k, r.uniform(0.1, 0.5), r.uniform(0.9, 0.999)]
    if k == "quniform":
        return [k, 0.0, r.randint(1, 6) * 0.5, 0.5]
    if k == "qloguniform":
        return [k, 0.5, r.randint(2, 12) * 0.5, 0.5]
    if k == "qrandint":
        q = r.randint(1, 3)
        return [k, q, q * r.randint(1, 6), q]
    raise ValueError(k)


def build_domain(spec):
    from syne_tune import config_space as cs

    k = spec[0]
    if k == "choice":
        return cs.choice(list(spec[1]))
    if k == "ordinal":
        return cs.ordinal(list(spec[1]), kind=spec[2])
    if k in ("finrange", "logfinrange"):
        return getattr(cs, k)(spec[1], spec[2], spec[3], cast_int=spec[4])
    return getattr(cs, k)(*spec[1:])


def build_space(scen):
    space = {}
    for name, spec in scen["space"]:
        if spec[0] == "const":
            space[name] = spec[1]
        else:
            space[name] = build_domain(spec)
    return space


def space_size(scen):
    from syne_tune.config_space import config_space_size

    return config_space_size(build_space(scen))


def effective_domain_size(spec):
    """Number of distinct values a domain can produce (None = infinite); independent of the library."""
    import math

    k = spec[0]
    if k == "const":
        return 1
    if k in ("choice", "ordinal"):
        return len(set(map(repr, spec[1])))
    if k in ("randint", "lograndint"):
        return spec[2] - spec[1] + 1
    if k in ("finrange", "logfinrange"):
        return spec[3]
    if k in ("quniform", "qloguniform"):
        lo, hi, q = spec[1], spec[2], spec[3]
        vals = {round(round(x / q) * q, 9) for x in (lo + i * (hi - lo) / 4000.0 for i in range(4001))}
        vals = {min(max(v, lo), hi) for v in vals}
        return len(vals)
    if k == "qrandint":
        lo, hi, q = spec[1], spec[2], spec[3]
        return len({int(round(x / q) * q) for x in range(lo, hi + 1) if lo <= int(round(x / q) * q) <= hi})
    return None


def effective_space_size(scen):
    n = 1
    for name, spec in scen["space"]:
        s = effective_domain_size(spec)
        if s is None:
            return None
        n *= s
    return n


def gen_space(r, finite=False, numeric=False, max_dims=4, tiny=False, simple=False):
    n = r.randint(1, max_dims)
    space = []
    for i in range(n):
        space.append(["x%d" % i, gen_domain(r, finite=finite or tiny, numeric=numeric, simple=simple and tiny)])
    if r.chance(0.3):
        space.append(["c0", ["const", r.choice([7, "fixed", 0.5])]])
    return space


# --------------------------------------------------------------------------
# scenario generator
# --------------------------------------------------------------------------
DEFAULT_PROFILE = {
    "world": "mem",
    "kinds": MODEL_FREE,
    "p_fault_free": 0.4,
    "fault_kinds": ["crash", "crash", "extstop"],
    "p_latency": 0.6,
    "p_shuffle_keys": 0.3,
    "p_repeat_level": 0.0,
    "p_early_finish_pbt": 0.0,
    "p_sparse_moasha": 0.0,
    "p_late_key": 0.0,
    "p_tiny_values": 0.03,
    "p_io_latency": 0.5,
    "p_async_stop": 0.15,
    "p_nodelay_false": 0.12,
    "p_sync_sched": 0.15,
    "p_wait": 0.25,
    "p_noreport": 0.0,
    "p_callback_raise": 0.0,
    "p_tiny_space": 0.15,
    "p_pte": 0.4,
    "max_trials": 25,
    "p_delete_ckpt": 0.5,
    "p_no_ckpt_script": 0.3,
    "p_not_honour": 0.3,
    "p_no_maxres": 0.4,
    "p_ties": 0.1,
    "p_extra": 0.3,
    "p_noise": 0.3,
    "stop_fields": None,
    "p_save_tuner": 0.05,
    "p_payload": 0.0,
    "p_rejects": 0.0,
    "p_allow_dup": 0.08,
    "p_restrict": 0.12,
    "p_nan_metric": 0.0,
}


def gen_scenario(root, profile=None):
    p = dict(DEFAULT_PROFILE)
    if profile:
        p.update(profile)
    r = HRng(root, "scenario")
    scen = {"v": 1, "seed": root, "world": p["world"]}
    kind = r.choice(p["kinds"])
    scen["kind"] = kind
    mode = r.choice(["min", "max"])
    max_t = r.choice(p.get("max_t_choices") or [3, 4, 5, 6, 8, 9, 9, 12, 16, 27])
    if kind in ("fifo_random", "fifo_grid", "fifo_bo", "rea"):
        max_t = r.choice([1, 1, 2, 3, 4])
    n_workers = r.choice([1, 2, 2, 3, 3, 4, 5, 6])
    tiny = r.chance(p["p_tiny_space"]) or kind == "fifo_grid"
    numeric = kind == "pbt" and r.chance(0.7)
    space = gen_space(r, finite=(kind == "fifo_grid"), numeric=numeric, tiny=tiny,
                      max_dims=2 if tiny else 4, simple=bool(p.get("simple_finite")))
    r0 = HRng(root, "scenario-ext0")
    if r0.chance(p["p_tiny_values"]) and kind != "fifo_grid":
        # a continuous hyperparameter whose values are tiny (Adam epsilon, weight decay): equality of configurations
        # must still be judged on significant digits
        cont = [i for i, (_, d) in enumerate(space) if d[0] in ("uniform", "loguniform")]
        if cont:
            i = cont[r0.randint(0, len(cont) - 1)]
            lo = 10.0 ** (-r0.randint(8, 11))
            space[i][1] = ["loguniform", lo, lo * 1000.0] if r0.chance(0.6) else ["uniform", 0.0, 4.0 * lo * 100.0]
    if p["world"] == "sim":
        # finite, fully tabulated space (<= 40 rows) of exactly matchable values
        space = []
        rows = 1
        for i in range(r.randint(2, 3)):  # (a one-column BlackboxTabular cannot be queried with this pandas: see DESIGN)
            if r.chance(0.5):
                n = r.randint(2, 5)
                dom = ["choice", r.choice([["a", "b", "c", "d", "e"], [1, 2, 3, 5, 8]])[:n]]
            else:
                lo = r.randint(0, 3)
                n = r.randint(2, 6)
                dom = ["randint", lo, lo + n - 1]
            if rows * n > 40 and len(space) >= 2:
                break
            rows *= n
            space.append(["x%d" % i, dom])
        if len(space) < 2:
            space = [["x0", ["randint", 0, 5]], ["x1", ["choice", ["a", "b", "c"]]]]
        if r.chance(0.3):
            space.append(["c0", ["const", r.choice([7, "fixed", 0.5])]])
    use_maxres = (kind.startswith("hb_") or kind.startswith("sync") or kind == "dehb") and not r.chance(p["p_no_maxres"])
    if kind in ("sync_hb", "sync_hb_custom", "sync_hb_bo", "dehb", "hb_dyhpo") and not use_maxres:
        use_maxres = r.chance(0.7)
    if use_maxres:
        space.append([MAXRES_ATTR, ["const", max_t]])
    scen["space"] = space
    scen["space_keys"] = [n for n, s in space if n != MAXRES_ATTR]
    sched = {"mode": mode, "max_t": max_t, "use_maxres": use_maxres, "random_seed": r.randint(0, 2**31 - 1)}
    # points_to_evaluate spec: resolved at build time against the space
    if r.chance(p["p_pte"]):
        sched["pte"] = {"n": r.randint(0, 3), "partial": r.chance(0.5), "dup": r.chance(0.3), "seed": r.randint(0, 10**6)}
        if sched["pte"]["partial"] and r.chance(p.get("p_pte_coincide", 0.2)):
            sched["pte"]["coincide"] = True
    else:
        sched["pte"] = None
    scen["metrics"] = ["loss"]
    if kind.startswith("hb_"):
        sched["brackets"] = r.choice([1, 1, 2, 3, 4])
        sched["grace_period"] = r.choice([1, 1, 2, 3])
        if sched["grace_period"] >= max_t:
            sched["grace_period"] = 1
        rs = r.choice(["rf", "rf", "rf", "inc", "levels"])
        if rs == "levels" and max_t < 4:
            rs = "rf"
        if rs == "rf":
            sched["reduction_factor"] = r.choice([2, 3, 4, 2.5])
        elif rs == "inc":
            sched["rung_increment"] = r.randint(1, max(1, max_t // 2))
        else:
            cand = list(range(1, max_t))
            k = r.randint(2, min(4, len(cand)))
            sched["rung_levels"] = sorted(r.sample(cand, k))
        from dst.refmodels.rungs import levels_from_sched
        if kind == "hb_pasha" and len(levels_from_sched(dict(sched, max_t=max_t))) < 2:
            # PASHA indexes its two top rungs unconditionally (IndexError with one rung): see DESIGN
            for key in ("rung_increment", "rung_levels"):
                sched.pop(key, None)
            sched["grace_period"], sched["reduction_factor"] = 1, 2
        if kind == "hb_pasha" and not p.get("pasha_multi_bracket", False):
            sched["brackets"] = 1
        sched["rung_system_per_bracket"] = r.chance(0.4)
        sched["searcher_data"] = r.choice(["rungs", "all", "rungs_and_last"])
        sched["register_pending_myopic"] = r.chance(0.3)
        if kind in ("hb_rush_stopping", "hb_rush_promotion"):
            sched["num_threshold_candidates"] = r.randint(0, 3)
            sched["pte"] = {"n": r.randint(sched["num_threshold_candidates"], 4), "partial": False, "dup": False, "seed": r.randint(0, 10**6)}
        if kind == "hb_hypertune":
            sched["brackets"] = r.choice([2, 3])
            sched["hb_type"] = r.choice(["stopping", "promotion"])
        if kind == "hb_dyhpo":
            sched.pop("reduction_factor", None)
            sched.pop("rung_levels", None)
            sched["rung_increment"] = r.randint(1, 2)
            sched["brackets"] = 1
            sched["grace_period"] = 1
            sched["probability_sh"] = r.choice([0.0, 0.25, 0.9])
        if kind in PAUSE_RESUME or sched.get("hb_type") == "promotion":
            if r.chance(p.get("p_early_removal", 0.3)):
                sched["early_ckpt_removal"] = {"max_num_checkpoints": r.randint(1, 4)}
    elif kind in ("sync_hb", "sync_hb_bo", "dehb"):
        sched["brackets"] = r.choice([None, 1, 2, 3])
        if kind == "dehb" and not r.chance(0.1):
            sched["brackets"] = None  # restricted bracket counts hit KF6 (IndexError): kept at a small weight
        sched["grace_period"] = r.choice([1, 1, 2])
        if sched["grace_period"] >= max_t:
            sched["grace_period"] = 1
        sched["reduction_factor"] = r.choice([2, 3, 3, 4])
    elif kind == "sync_hb_custom":
        depth = r.randint(1, min(3, max_t))
        levels = sorted(r.sample(list(range(1, max_t)), depth - 1)) + [max_t]
        nb = r.randint(1, depth)
        brs = []
        for b in range(nb):
            lv = levels[b:]
            sizes = sorted(r.sample(list(range(1, 10)), len(lv)), reverse=True)
            brs.append([[s, l] for s, l in zip(sizes, lv)])
        sched["bracket_rungs"] = brs
    elif kind == "pbt":
        sched["population_size"] = r.randint(2, 5)
        sched["perturbation_interval"] = r.randint(1, 3)
        sched["quantile_fraction"] = r.choice([0.25, 0.5, 0.34])
        sched["resample_probability"] = r.choice([0.25, 0.0, 1.0])
    elif kind == "moasha":
        nobj = r.randint(2, 4)
        scen["metrics"] = ["obj%d" % i for i in range(nobj)]
        sched["modes"] = [r.choice(["min", "max"]) for _ in range(nobj)] if r.chance(0.6) else mode
        sched["priority"] = r.choice(["nondominated", "nondominated", "linear", "fixed"])
        sched["brackets"] = r.randint(1, 3)
        sched["grace_period"] = r.choice([1, 1, 2])
        if sched["grace_period"] >= max_t:
            sched["grace_period"] = 1
        sched["reduction_factor"] = r.choice([2, 3, 4])
    elif kind == "median":
        sched["grace_time"] = r.randint(1, 3)
        sched["grace_population"] = r.randint(1, 4)
        sched["rank_cutoff"] = r.choice([0.5, 0.3, 0.8])
        sched["running_average"] = r.chance(0.5)
    elif kind == "rea":
        sched["population_size"] = r.randint(2, 6)
        sched["sample_size"] = r.randint(1, 3)
    if kind in GP_KINDS:
        sched["num_init_random"] = r.choice([2, 3, 50, 50])
        sched["gp_opts"] = {"opt_maxiter": r.choice([2, 5]), "num_init_candidates": r.choice([10, 25]),
                            "opt_nstarts": 1, "num_fantasy_samples": r.choice([2, 5])}
        if kind == "hb_hypertune":
            sched["gp_model"] = "gp_independent"
        elif kind in ("hb_stopping_bo", "hb_promotion_bo", "sync_hb_bo"):
            # (the learning-curve models gp_expdecay / gp_issm are not generated: see DESIGN 7.3)
            sched["gp_model"] = r.choice(["gp_multitask", "gp_multitask", "gp_independent", "gp_multitask"])
            if kind == "sync_hb_bo" and sched["gp_model"] == "gp_expdecay":
                sched["gp_model"] = "gp_multitask"
            if sched["gp_model"] == "gp_expdecay":
                sched["searcher_data"] = "all"  # documented requirement of the learning-curve models
        if sched.get("gp_model") == "gp_independent":
            # independent GPs live on rung levels only (documented for HyperTune): data and pending at rung levels
            sched["searcher_data"] = "rungs"
            sched["register_pending_myopic"] = False
    RANDOM_SEARCHER_KINDS = ("fifo_random", "hb_stopping", "hb_promotion", "hb_pasha", "hb_cost_promotion", "sync_hb", "sync_hb_custom", "median")
    if kind in RANDOM_SEARCHER_KINDS and r.chance(p["p_allow_dup"]):
        sched["allow_duplicates"] = True
    if kind in RANDOM_SEARCHER_KINDS + ("fifo_bo", "hb_stopping_bo", "hb_promotion_bo") and r.chance(p["p_restrict"]):
        # restrict_configurations: a subset of a finite space (as for tabulated benchmarks)
        vals = []
        ok = True
        for name, spec in space:
            if spec[0] == "const" or name == MAXRES_ATTR:
                continue
            if spec[0] in ("choice", "ordinal"):
                vals.append((name, list(spec[1])))
            elif spec[0] == "randint" and spec[2] - spec[1] <= 8:
                vals.append((name, list(range(spec[1], spec[2] + 1))))
            else:
                ok = False
        if ok and vals:
            import itertools

            combos = [dict(zip([n for n, _ in vals], c)) for c in itertools.product(*[v for _, v in vals])]
            if 2 <= len(combos) <= 80:
                keep = [c for c in combos if r.chance(0.7)] or combos[:1]
                sched["restrict_configurations"] = keep
    scen["scheduler"] = sched
    # ---- job script -----------------------------------------------------
    script = {
        "max_epochs": max_t,
        "honour_max_resource": not r.chance(p["p_not_honour"]),
        "checkpointing": not r.chance(p["p_no_ckpt_script"]),
        "pace": {"kind": r.choice(["even", "jitter", "jitter", "bursty", "stall", "pertrial"]),
                 "mean": r.choice([0.3, 1.0, 1.0, 3.0])},
        "startup": r.choice([0.0, 0.0, 0.5, 2.0]),
        "exit_delay": r.choice([0.0, 0.0, 0.3, 2.5]),
        "cost": kind == "hb_cost_promotion" or r.chance(0.1),
    }
    if kind == "pbt":
        script["checkpointing"] = True
    if r.chance(p["p_ties"]):
        script["ties"] = r.choice([2, 3, 5])
    if r.chance(p["p_extra"]):
        script["extra"] = r.sample(["str", "nan", "int"], r.randint(1, 3))
    if r.chance(p["p_noise"]):
        script["noise"] = r.randint(1, 3)
    if kind in ("fifo_random", "fifo_grid", "fifo_bo") and r.chance(p["p_nan_metric"]):
        script["nan_metric"] = r.choice([0.15, 0.4])  # some trials complete with a NaN / inf metric value
    if kind in ("sync_hb", "sync_hb_custom") and r.chance(p.get("p_nan_metric_sync", 0.0)):
        # diverging configurations: the script reports NaN at every level (ranked last by synchronous Hyperband)
        script["nan_metric"] = r.choice([0.3, 0.6])
        script["nan_all_levels"] = True
    if r.chance(p.get("p_early_finish", 0.0)) and max_t >= 3 and kind.startswith(("hb_", "fifo", "median", "rea", "moasha")):
        # some training scripts end on their own after a few epochs (exit code 0), before reaching a rung level
        script["early_finish"] = {"p": r.choice([0.2, 0.5]), "at": r.randint(1, 2)}
    if r.chance(p["p_payload"]):
        script["payload"] = r.sample(["str", "nested", "numpy", "inf"], r.randint(1, 4))
    if r.chance(p["p_rejects"]):
        script["rejects"] = {"p": r.choice([0.2, 0.5]), "kinds": r.sample(
            ["reserved", "unserialisable_set", "unserialisable_obj", "ndarray", "oversize", "none"], r.randint(1, 4))}
    scen["script"] = script
    # ---- tuner ------------------------------------------------------------
    stop = {}
    fields = p["stop_fields"] or ["max_num_trials_started", "max_num_trials_started", "max_num_trials_finished",
                                  "max_num_trials_completed", "max_num_evaluations", "max_wallclock_time"]
    nf = 1 if r.chance(0.75) else 2
    for f in r.sample(fields, nf):
        if f == "max_wallclock_time":
            stop[f] = round(r.uniform(3, 60) * script["pace"]["mean"], 2)
        elif f == "max_num_evaluations":
            stop[f] = r.randint(3, 60)
        elif f == "max_cost":
            stop[f] = r.uniform(1, 20)
        elif f in ("min_metric_value", "max_metric_value"):
            stop[f] = {"loss": r.uniform(0.05, 0.95)}
        else:
            stop[f] = r.randint(p.get("min_trials", 1), p["max_trials"])
    if "max_wallclock_time" not in stop and "max_num_trials_started" not in stop:
        # safety net so that every run terminates in bounded simulated time
        stop["max_wallclock_time"] = 150.0 * script["pace"]["mean"]
    if "max_num_trials_started" not in stop:
        # bound on the size of a run (sizes are deliberately small, see DESIGN 3.4)
        stop["max_num_trials_started"] = 25 if kind == "moasha" else 14 if kind in GP_KINDS else 45
    if sched.get("early_ckpt_removal") and "max_wallclock_time" not in stop:
        # the early-removal callback documents that it needs max_wallclock_time
        stop["max_wallclock_time"] = 150.0 * script["pace"]["mean"]
    tuner = {
        "n_workers": n_workers,
        "sleep_time": r.choice([0.1, 0.5, 1.0, 1.0, 2.0, 5.0]) * script["pace"]["mean"],
        "max_failures": r.choice([0, 1, 1, 2, 3, 6]),
        "asynchronous_scheduling": not r.chance(p["p_sync_sched"]),
        "wait_trial_completion_when_stopping": r.chance(p["p_wait"]),
        "start_jobs_without_delay": not r.chance(p["p_nodelay_false"]),
        "results_update_interval": r.choice([0.0, 1.0, 10.0, 1e9]),
        "save_tuner": r.chance(p["p_save_tuner"]),
        "stop": stop,
    }
    if tuner["save_tuner"] and tuner["results_update_interval"] < 30.0:
        # Tuner.save dill-pickles the whole tuner (all rows so far) once per interval: keep it off the per-result path
        tuner["results_update_interval"] = 30.0
    scen["tuner"] = tuner
    scen["backend"] = {
        "delete_checkpoints": r.chance(p["p_delete_ckpt"]),
        "async_stop": (r.choice([0.5, 2.0, 6.0]) * script["pace"]["mean"]) if r.chance(p["p_async_stop"]) else 0.0,
    }
    # ---- latency model (F5) --------------------------------------------------
    if r.chance(p["p_latency"]):
        scen["latency"] = {"p": r.choice([0.1, 0.3, 0.7]), "scale": r.choice([0.2, 1.0, 3.0]) * script["pace"]["mean"],
                           "p_kill": r.choice([0.0, 0.3])}
    else:
        scen["latency"] = None
    # ---- faults ------------------------------------------------------------
    faults = []
    if not r.chance(p["p_fault_free"]) and p["fault_kinds"]:
        for _ in range(r.randint(1, 3)):
            fk = r.choice(p["fault_kinds"])
            lvl = r.choice(["first", "first", 1, 2, 2, 3, 4, 5])
            if lvl != "first" and lvl > max_t:
                lvl = max_t
            faults.append({"kind": fk, "trial": r.randint(0, 7), "run": r.choice([None, None, 0, 1]), "level": lvl})
    if p["world"] == "local":
        # an operator cannot make a LocalBackend job "Stopped" other than through the back-end's own marker file,
        # which then outlives a later resume: F2 (external stop) is simulated in W-MEM only
        faults = [f for f in faults if f["kind"] != "extstop"]
    scen["faults"] = faults
    if r.chance(p["p_noreport"]):
        script["noreport_exit0"] = True
        script["noreport_trials"] = [r.randint(0, 5)]
    if p["world"] == "sim":
        mean = script["pace"]["mean"]
        dl = lambda: r.choice([0.0, 0.05, 0.05, 0.5, 3.0]) * mean
        d_res = dl()
        scen["sim"] = {
            "n_seeds": r.randint(1, 3), "fixed_seed": None, "support_checkpointing": script["checkpointing"],
            "elapsed_kind": r.choice(["monotone", "monotone", "noisy", "nonmonotone"]),
            "tuner_sleep_time": tuner["sleep_time"],
            "delays": {"on_trial_result": d_res, "complete_after_final_report": d_res + dl(), "complete_after_stop": dl(),
                       "start": dl(), "stop": dl()},
        }
        if r.chance(0.5) or p.get("sim_fixed_seed"):
            scen["sim"]["fixed_seed"] = r.randint(0, scen["sim"]["n_seeds"] - 1)
        scen["backend"] = {"delete_checkpoints": False, "async_stop": 0.0}
        scen["faults"] = [f for f in faults if f["kind"] == "crash"]
        sched.pop("early_ckpt_removal", None)
        script.pop("noreport_exit0", None)
        script["cost"] = False
    if r.chance(p["p_callback_raise"]):
        scen["callback_raise"] = {"hook": r.choice(["on_trial_result", "on_loop_end", "on_start_trial", "sleep"]),
                                  "n": r.randint(1, 25), "exc": r.choice(["RuntimeError", "KeyboardInterrupt"])}
    # ---- extensions drawn from their own stream (scenarios of earlier versions keep all their other fields) ----
    r2 = HRng(root, "scenario-ext1")
    if r2.chance(p["p_shuffle_keys"]) and p["world"] != "sim":
        script["shuffle_keys"] = True  # the script lists the entries of a report in varying order
    script["level_noise"] = r2.choice([0.4, 0.4, 0.15, 0.05])
    if script.get("rejects") and r2.chance(0.5):
        script["rejects"]["kinds"] = list(script["rejects"]["kinds"]) + r2.sample(["nonstr_key_np", "nonstr_key_tuple"], r2.randint(1, 2))
    if kind == "rea" and r2.chance(0.5):
        sched["mode_via_scheduler"] = True  # the searcher learns the mode from its scheduler only (as the REA baseline does)
    if kind == "fifo_bo" and p.get("gp_skip_period") and r2.chance(0.6):
        # surrogate hyperparameters refitted only every k-th time (a predicate with a counter, part of the searcher's state)
        sched["gp_opts"] = dict(sched.get("gp_opts") or {}, opt_skip_period=r2.choice([2, 3]), opt_skip_init_length=r2.choice([1, 3]))
    if kind == "sync_hb_bo":
        sched["searcher_data"] = "rungs" if sched.get("gp_model") == "gp_independent" else r2.choice(["rungs", "all"])
    if kind == "moasha" and r2.chance(p["p_sparse_moasha"]) and max_t >= 4:
        # scripts that report only every k-th epoch (and their last one), some of which end on their own before the
        # maximum resource: a report can pass several rung levels at once, and a trial can complete between rung levels
        script["report_every"] = r2.choice([2, 3, 4])
        script["early_finish"] = {"p": 0.5, "at": r2.randint(2, max_t - 1)}
        if r2.chance(0.5):
            script["max_epochs"] = max_t + r2.randint(1, 3)  # the script trains beyond max_t: a report can skip over it
    if kind == "moasha" and sched.get("priority") == "nondominated" and r2.chance(0.35):
        sched["max_num_samples"] = r2.randint(1, 6)  # only the top k of the non-dominated sort get distinct priorities
    if kind == "pbt" and r2.chance(p["p_early_finish_pbt"]) and max_t >= 3:
        # population-based training on scripts some of which end on their own before the maximum resource: such a
        # trial completes without the scheduler having stopped it and stays in the population
        script["early_finish"] = {"p": r2.choice([0.3, 0.6]), "at": r2.randint(1, max_t - 1)}
    if script.get("payload") and r2.chance(0.15):
        script["payload"] = list(script["payload"]) + ["cr"]
    if p["world"] != "sim" and r2.chance(p["p_late_key"]):
        script["late_key"] = r2.randint(2, 3)  # a value the script starts to report only from this level on
    if r2.chance(p["p_repeat_level"]) and kind in ("hb_stopping", "hb_rush_stopping"):
        script["repeat_level"] = r2.choice([0.1, 0.3])  # some resource values are reported twice (legal for stopping-type schedulers)
    if scen.get("latency") and p["world"] == "local" and r2.chance(p["p_io_latency"]):
        # F12 slow reads: time passes between the back-end's read of the process status and of the output stream
        scen["latency"]["p_io"] = r2.choice([0.05, 0.2, 0.5])
    return scen


# --------------------------------------------------------------------------
# builders
# --------------------------------------------------------------------------
def midpoint_free_points(scen, space):
    """points_to_evaluate drawn deterministically from the space (for the pte spec)."""
    from syne_tune.config_space import Domain
    import numpy as np

    pte = scen["scheduler"].get("pte")
    if pte is None:
        return None
    rs = np.random.RandomState(pte["seed"])
    pts = []
    keys = [k for k, v in space.items() if isinstance(v, Domain)]
    for i in range(pte["n"]):
        cfg = {}
        for k in keys:
            if pte["partial"] and rs.rand() < 0.4:
                continue
            v = space[k].sample(random_state=rs)
            cfg[k] = v
        pts.append(cfg)
    if pte["dup"] and pts:
        pts.append(dict(pts[0]))
    if pte.get("coincide") and pts:
        # a second way of writing an initial point: one more key given explicitly, with the value the mid-point
        # rule would fill in anyway -> the two coincide only AFTER imputation (documented: duplicates removed)
        from dst.oracles.c06 import midpoints

        specs = {n: s for n, s in scen["space"]}
        base = dict(pts[-1 if not pte["dup"] else 0])
        missing = [k for k in keys if k not in base]
        for k in missing:
            mp = midpoints(specs[k])
            if len(mp) == 1:
                twin = dict(base)
                twin[k] = mp[0]
                pts.append(twin)
                break
    return pts


def extra_search_options(sched, so):
    if sched.get("allow_duplicates"):
        so["allow_duplicates"] = True
    if sched.get("restrict_configurations"):
        so["restrict_configurations"] = copy.deepcopy(sched["restrict_configurations"])
    return so


def gp_search_options(sched):
    so = {"debug_log": False, "num_init_random": sched.get("num_init_random", 3)}
    so.update(sched.get("gp_opts", {}))
    if sched.get("gp_model"):
        so["model"] = sched["gp_model"]
    return extra_search_options(sched, so)


def build_scheduler(scen):
    """Returns (scheduler, info) -- info holds what oracles need (space, pte, ...)."""
    kind = scen["kind"]
    s = scen["scheduler"]
    space = build_space(scen)
    metric = scen["metrics"][0]
    mode = s["mode"]
    pte = midpoint_free_points(scen, space)
    info = {"space": space, "pte": copy.deepcopy(pte)}
    common = dict(metric=metric, mode=mode, random_seed=s["random_seed"])
    if pte is not None:
        common["points_to_evaluate"] = copy.deepcopy(pte)
    maxres = {"max_resource_attr": MAXRES_ATTR} if s["use_maxres"] else {}
    from syne_tune.optimizer.schedulers import FIFOScheduler, HyperbandScheduler

    if kind in ("fifo_random", "fifo_grid", "fifo_bo"):
        searcher = {"fifo_random": "random", "fifo_grid": "grid", "fifo_bo": "bayesopt"}[kind]
        so = gp_search_options(s) if kind == "fifo_bo" else extra_search_options(s, {"debug_log": False}) if kind == "fifo_random" else {"debug_log": False}
        sched = FIFOScheduler(space, searcher=searcher, search_options=so, **common)
    elif kind == "rea":
        from syne_tune.optimizer.schedulers.searchers.regularized_evolution import RegularizedEvolution

        searcher = RegularizedEvolution(
            space, metric=metric, **({} if s.get("mode_via_scheduler") else {"mode": mode}), population_size=s["population_size"],
            sample_size=s["sample_size"], random_seed=s["random_seed"],
            points_to_evaluate=copy.deepcopy(pte),
        )
        sched = FIFOScheduler(space, searcher=searcher, metric=metric, mode=mode, random_seed=s["random_seed"])
    elif kind.startswith("hb_"):
        kw = dict(common)
        kw.update(resource_attr=RESOURCE_ATTR, brackets=s["brackets"], grace_period=s["grace_period"],
                  rung_system_per_bracket=s["rung_system_per_bracket"], searcher_data=s["searcher_data"],
                  register_pending_myopic=s["register_pending_myopic"])
        for key in ("reduction_factor", "rung_increment", "rung_levels"):
            if key in s:
                kw[key] = s[key]
        if s["use_maxres"]:
            kw["max_resource_attr"] = MAXRES_ATTR
        else:
            kw["max_t"] = s["max_t"]
        hb_type = HB_TYPES[kind] or s.get("hb_type")
        kw["type"] = hb_type
        if kind == "hb_cost_promotion":
            kw["cost_attr"] = "elapsed_time" if scen["world"] == "sim" else COST_ATTR
        rsk = {}
        if "num_threshold_candidates" in s:
            rsk["num_threshold_candidates"] = s["num_threshold_candidates"]
        if "probability_sh" in s:
            rsk["probability_sh"] = s["probability_sh"]
        if rsk:
            kw["rung_system_kwargs"] = rsk
        if s.get("early_ckpt_removal"):
            kw["early_checkpoint_removal_kwargs"] = dict(s["early_ckpt_removal"])
        if kind in ("hb_stopping_bo", "hb_promotion_bo"):
            kw["searcher"] = "bayesopt"
            kw["search_options"] = gp_search_options(s)
        elif kind == "hb_hypertune":
            kw["searcher"] = "hypertune"
            kw["search_options"] = gp_search_options(s)
        elif kind == "hb_dyhpo":
            kw["searcher"] = "dyhpo"
            kw["search_options"] = gp_search_options(s)
        else:
            kw["searcher"] = "random"
            kw["search_options"] = extra_search_options(s, {"debug_log": False})
        sched = HyperbandScheduler(space, **kw)
    elif kind in ("sync_hb", "sync_hb_bo", "dehb"):
        from syne_tune.optimizer.schedulers.synchronous import (
            SynchronousGeometricHyperbandScheduler, GeometricDifferentialEvolutionHyperbandScheduler,
        )

        kw = dict(common)
        kw.update(resource_attr=RESOURCE_ATTR, grace_period=s["grace_period"], reduction_factor=s["reduction_factor"])
        if s.get("brackets") is not None:
            kw["brackets"] = s["brackets"]
        if s["use_maxres"]:
            kw["max_resource_attr"] = MAXRES_ATTR
        else:
            kw["max_resource_level"] = s["max_t"]
        if kind == "sync_hb_bo":
            kw["searcher"] = "bayesopt"
            kw["search_options"] = gp_search_options(s)
            kw["searcher_data"] = s.get("searcher_data", "rungs")
        else:
            kw["search_options"] = extra_search_options(s, {"debug_log": False}) if kind == "sync_hb" else {"debug_log": False}
        cls = GeometricDifferentialEvolutionHyperbandScheduler if kind == "dehb" else SynchronousGeometricHyperbandScheduler
        if kind == "dehb":
            kw.pop("points_to_evaluate", None)
            info["pte"] = None
        sched = cls(space, **kw)
    elif kind == "sync_hb_custom":
        from syne_tune.optimizer.schedulers.synchronous import SynchronousHyperbandScheduler

        kw = dict(common)
        kw.update(resource_attr=RESOURCE_ATTR, search_options=extra_search_options(s, {"debug_log": False}))
        if s["use_maxres"]:
            kw["max_resource_attr"] = MAXRES_ATTR
        else:
            kw["max_resource_level"] = s["max_t"]
        brs = [[(int(a), int(b)) for a, b in br] for br in s["bracket_rungs"]]
        sched = SynchronousHyperbandScheduler(space, bracket_rungs=brs, **kw)
    elif kind == "pbt":
        from syne_tune.optimizer.schedulers import PopulationBasedTraining

        kw = dict(common)
        kw.pop("points_to_evaluate", None)
        info["pte"] = None
        sched = PopulationBasedTraining(
            space, resource_attr=RESOURCE_ATTR, max_t=s["max_t"], population_size=s["population_size"],
            perturbation_interval=s["perturbation_interval"], quantile_fraction=s["quantile_fraction"],
            resample_probability=s["resample_probability"], search_options={"debug_log": False}, **kw)
    elif kind == "moasha":
        from syne_tune.optimizer.schedulers.multiobjective import MOASHA
        from syne_tune.optimizer.schedulers.multiobjective.multiobjective_priority import (
            LinearScalarizationPriority, FixedObjectivePriority, NonDominatedPriority,
        )

        pr = {"nondominated": NonDominatedPriority, "linear": LinearScalarizationPriority,
              "fixed": FixedObjectivePriority}[s["priority"]]()
        if s.get("max_num_samples") is not None:
            pr = NonDominatedPriority(max_num_samples=s["max_num_samples"])
        sched = MOASHA(space, metrics=list(scen["metrics"]), mode=s["modes"], time_attr=RESOURCE_ATTR,
                       multiobjective_priority=pr, max_t=s["max_t"], grace_period=s["grace_period"],
                       reduction_factor=s["reduction_factor"], brackets=s["brackets"])
        info["pte"] = None
    elif kind == "median":
        from syne_tune.optimizer.schedulers.median_stopping_rule import MedianStoppingRule

        inner = FIFOScheduler(space, searcher="random", search_options=extra_search_options(s, {"debug_log": False}), **common)
        sched = MedianStoppingRule(inner, resource_attr=RESOURCE_ATTR, running_average=s["running_average"],
                                   grace_time=s["grace_time"], grace_population=s["grace_population"],
                                   rank_cutoff=s["rank_cutoff"])
    else:
        raise ValueError(kind)
    return sched, info


def build_stop_criterion(scen):
    from syne_tune import StoppingCriterion

    return StoppingCriterion(**scen["tuner"]["stop"])
