"""known_findings.json matching.  The file is committed and never written at run time.

An entry {"status": "known", "id": ..., "manifests": [{"property", "rule", "match": {...}}], "what": ...}
suppresses exactly the violations whose property, rule and *all* match keys are equal.
A "fixed" entry matches nothing (it documents a repaired defect)."""
import json
import os

PATH = os.path.join(os.path.dirname(os.path.dirname(os.path.abspath(__file__))), "known_findings.json")


def load(path=PATH):
    if not os.path.exists(path):
        return []
    with open(path) as f:
        return json.load(f)["entries"]


def match(entries, v):
    """Return the known entry that covers violation v, or None."""
    for e in entries:
        if e.get("status") != "known":
            continue
        for m in e.get("manifests", []):
            if m["property"] != v["prop"] or m["rule"] != v["rule"]:
                continue
            if all(v["keys"].get(k) == val for k, val in m.get("match", {}).items()):
                return e
    return None


def triage(entries, viols):
    """Split the violations of one run.

    Returns (new, known_hits, truncated): violations at or after the first known-finding
    event are not evidence for anything (what happens after a known defect fired) and
    are dropped; `truncated` says whether that happened."""
    hits = []
    cut = None
    for v in viols:
        e = match(entries, v)
        if e is not None:
            hits.append((e, v))
            if v.get("seq") is not None:
                cut = v["seq"] if cut is None else min(cut, v["seq"])
            else:
                cut = -1 if cut is None else cut
    hit_ids = {id(v) for _, v in hits}
    new = []
    for v in viols:
        if id(v) in hit_ids:
            continue
        if hits and (cut is None or cut < 0 or v.get("seq") is None or v["seq"] >= cut):
            continue  # after (or not attributable to before) a known-finding event
        new.append(v)
    return new, hits, bool(hits)
