"""C15 -- minimising f and maximising -f are the same experiment (paired runs)."""
import copy

import numpy as np

from dst import harness, views
from dst.drivers import common
from dst.oracles import V
from dst.refmodels.rungs import levels_from_sched


def flipped(scen):
    s2 = copy.deepcopy(scen)
    flip = lambda m: "max" if m == "min" else "min"
    sch = s2["scheduler"]
    sch["mode"] = flip(sch["mode"])
    if "modes" in sch:
        sch["modes"] = flip(sch["modes"]) if isinstance(sch["modes"], str) else [flip(m) for m in sch["modes"]]
    s2["signs"] = [-x for x in scen.get("signs", [1.0] * len(scen["metrics"]))]
    return s2


def band(a, b):
    return abs(a - b) <= 1e-9 * max(1.0, abs(a), abs(b))


def degenerate_threshold(tr, upto_seq):
    """Is any rung threshold within round-off of a metric value in the history prefix?

    Hyperband variants compare a metric with numpy.quantile of its rung; whenever (n-1)q is an
    integer the threshold *is* one of the rung's values and the two modes reach it through
    different interpolation weights -- the property exempts exactly these cases."""
    scen = tr.scen
    if not scen["kind"].startswith("hb_"):
        return False
    s = scen["scheduler"]
    levels = levels_from_sched(s)
    nxt = levels[1:] + [s["max_t"]]
    q_of = {l: l / n for l, n in zip(levels, nxt)}
    metric = scen["metrics"][0]
    rungs = {}
    seen = set()
    for c in tr.sched:
        if c["s0"] > upto_seq:
            break
        if c["m"] != "on_trial_result" or c["exc"] is not None:
            continue
        r = int(c["result"]["epoch"])
        t = c["trial"]
        if r in q_of and (t, r) not in seen:
            seen.add((t, r))
            rungs.setdefault(r, []).append(float(c["result"][metric]))
    for r, vals in rungs.items():
        if len(vals) < 2:
            continue
        # all prefixes of the rung (thresholds are taken as the rung grows)
        for n in range(2, len(vals) + 1):
            v = np.array(vals[:n])
            for q in (q_of[r], 1.0 - q_of[r]):
                cut = float(np.quantile(v, q))
                if any(band(x, cut) for x in v):
                    return True
    return False


def run(scen, spec, props):
    hA = harness.run_scenario(scen)
    trA = views.Trace(hA)
    res = common.base_result(hA, trA)
    res["viol"] = []
    if res["build_error"]:
        return res
    scenB = flipped(scen)
    hB = harness.run_scenario(scenB)
    trB = views.Trace(hB)
    dA, dB = common.decisions(trA), common.decisions(trB)
    i = common.first_diff(dA, dB)
    res["counters"]["probe.pairs_compared"] = 1
    res["counters"]["probe.pair_events_compared"] = len(dA) if i is None else i
    if i is not None:
        # locate the event in the min-run history to judge whether a threshold tie explains it
        calls = [c for c in trA.sched if c["s1"] is not None and c["m"] in ("suggest", "on_trial_result")]
        seq = calls[i]["s1"] if i < len(calls) else (trA.events[-1]["s"] if trA.events else 0)
        if degenerate_threshold(trA, seq):
            res["counters"]["probe.pairs_degenerate_threshold_tie"] = 1
        else:
            a = dA[i] if i < len(dA) else None
            b = dB[i] if i < len(dB) else None
            res["viol"].append(V("C15", "R1.pair_diverges", trA,
                                 "mode %s on f and mode %s on -f diverge at scheduler event %d: %s vs %s" % (
                                     scen["scheduler"]["mode"], scenB["scheduler"]["mode"], i, a, b), seq, what=(a or b)[0]))
    else:
        bA, bB = hA.final.get("best"), hB.final.get("best")
        if bA and bB and "error" not in bA and "error" not in bB and bA["trial"] != bB["trial"]:
            # equal optimum attained by several trials is a tie, not a violation
            metric = scen["metrics"][0]
            rows = hA.final.get("rows", [])
            vals = {}
            for r in rows:
                if isinstance(r.get(metric), (int, float)):
                    vals.setdefault(r["trial_id"], []).append(r[metric])
            res["viol"].append(V("C15", "R2.best_config_differs", trA,
                                 "identical traces but Tuner.best_config() names trial %s for mode %s on f and trial %s for mode %s on -f" % (
                                     bA["trial"], scen["scheduler"]["mode"], bB["trial"], scenB["scheduler"]["mode"]), None))
    return res
