"""C15 -- minimising f and maximising -f are the same experiment (paired runs)."""
import copy

import numpy as np

from dst import harness, views
from dst.drivers import common
from dst.oracles import V
from dst.refmodels.rungs import levels_from_sched


def flipped(scen):
    s2 = copy.deepcopy(scen)
    flip = lambda m: "max" if m == "min" else "min"
    sch = s2["scheduler"]
    sch["mode"] = flip(sch["mode"])
    if "modes" in sch:
        sch["modes"] = flip(sch["modes"]) if isinstance(sch["modes"], str) else [flip(m) for m in sch["modes"]]
    s2["signs"] = [-x for x in scen.get("signs", [1.0] * len(scen["metrics"]))]
    return s2


def band(a, b):
    return abs(a - b) <= 1e-9 * max(1.0, abs(a), abs(b))


def degenerate_threshold(tr, call):
    """Is the decision taken in `call` (the first event at which the two runs differ) one whose threshold lies within
    round-off of the metric value it is compared with?

    Hyperband variants compare a metric with the linear-interpolation quantile of its rung; whenever (n-1)q is (nearly)
    an integer the threshold is (nearly) one of the rung's values and the two modes reach it through different
    interpolation weights -- the property exempts exactly these comparisons, and only these:
      * a stop/continue decision: the reporter's metric against the quantile of its rung at that moment;
      * a suggestion (promote or start a new trial): for some rung, the best not yet promoted entry against the
        quantile of that rung at that moment."""
    scen = tr.scen
    if not scen["kind"].startswith("hb_"):
        return False
    s = scen["scheduler"]
    levels = levels_from_sched(s)
    nxt = levels[1:] + [s["max_t"]]
    q_of = {l: l / n for l, n in zip(levels, nxt)}
    metric = scen["metrics"][0]
    mode = s["mode"]
    rungs = {}  # (rung system, level) -> list of [trial, metric, promoted]
    seen = set()
    per_bracket = s.get("rung_system_per_bracket", False)
    bracket = {e["trial"]: e.get("bracket", 0) for e in tr.events if e["k"] == "s.ret" and e["m"] == "on_trial_add"}

    def key_of(t, r):
        b = bracket.get(t, 0) or 0
        if r not in levels[b:]:
            return None  # not one of the trial's own rung levels
        return (b if per_bracket else 0, r)

    for c in tr.sched:
        if c["s0"] > call["s0"]:
            break
        if c["exc"] is not None or c["s1"] is None:
            continue
        if c["m"] == "suggest" and c["s0"] < call["s0"] and c["ret"] is not None and not c["ret"]["new"]:
            T = c["ret"]["ckpt"]
            lv = [k for k, lst in rungs.items() if any(e[0] == T and not e[2] for e in lst)]
            if lv:
                for e in rungs[max(lv, key=lambda k: k[1])]:
                    if e[0] == T:
                        e[2] = True
        if c["m"] == "on_trial_result":
            r = int(c["result"]["epoch"])
            t = c["trial"]
            k = key_of(t, r)
            if k is not None and (t, r) not in seen:
                seen.add((t, r))
                rungs.setdefault(k, []).append([t, float(c["result"][metric]), False])

    def cuts(vals, q):
        v = np.array(vals)
        return [float(np.quantile(v, q)), float(np.quantile(v, 1.0 - q))]

    if call["m"] == "on_trial_result":
        r = int(call["result"]["epoch"])
        k = key_of(call["trial"], r)
        lst = rungs.get(k, []) if k is not None else []
        if len(lst) < 2:
            return False
        m = float(call["result"][metric])
        return any(band(m, cut) for cut in cuts([e[1] for e in lst], q_of[r]))
    for (_, r), lst in rungs.items():
        if len(lst) < 2:
            continue
        cand = [e[1] for e in lst if not e[2]]
        if not cand:
            continue
        best = min(cand) if mode == "min" else max(cand)
        if any(band(best, cut) for cut in cuts([e[1] for e in lst], q_of[r])):
            return True
    return False


def run(scen, spec, props):
    hA = harness.run_scenario(scen)
    trA = views.Trace(hA)
    res = common.base_result(hA, trA)
    res["viol"] = []
    if res["build_error"]:
        return res
    scenB = flipped(scen)
    hB = harness.run_scenario(scenB)
    trB = views.Trace(hB)
    dA, dB = common.decisions(trA), common.decisions(trB)
    i = common.first_diff(dA, dB)
    res["counters"]["probe.pairs_compared"] = 1
    res["counters"]["probe.pair_events_compared"] = len(dA) if i is None else i
    if i is not None:
        # locate the event in the min-run history to judge whether a threshold tie explains it
        calls = [c for c in trA.sched if c["s1"] is not None and c["m"] in ("suggest", "on_trial_result")]
        seq = calls[i]["s1"] if i < len(calls) else (trA.events[-1]["s"] if trA.events else 0)
        if i < len(calls) and degenerate_threshold(trA, calls[i]):
            res["counters"]["probe.pairs_degenerate_threshold_tie"] = 1
        else:
            a = dA[i] if i < len(dA) else None
            b = dB[i] if i < len(dB) else None
            res["viol"].append(V("C15", "R1.pair_diverges", trA,
                                 "mode %s on f and mode %s on -f diverge at scheduler event %d: %s vs %s" % (
                                     scen["scheduler"]["mode"], scenB["scheduler"]["mode"], i, a, b), seq, what=(a or b)[0]))
    else:
        bA, bB = hA.final.get("best"), hB.final.get("best")
        if bA and bB and "error" not in bA and "error" not in bB and bA["trial"] != bB["trial"]:
            # equal optimum attained by several trials is a tie, not a violation
            metric = scen["metrics"][0]
            rows = hA.final.get("rows", [])
            vals = {}
            for r in rows:
                if isinstance(r.get(metric), (int, float)):
                    vals.setdefault(r["trial_id"], []).append(r[metric])
            res["viol"].append(V("C15", "R2.best_config_differs", trA,
                                 "identical traces but Tuner.best_config() names trial %s for mode %s on f and trial %s for mode %s on -f" % (
                                     bA["trial"], scen["scheduler"]["mode"], bB["trial"], scenB["scheduler"]["mode"]), None))
    return res
