"""C16 -- a saved and restored scheduler or searcher continues exactly like the original.

Fault F8 (crash-restart) at an enumerated call boundary p of a sampled history:
  mode "dill":  scheduler := dill.loads(dill.dumps(scheduler))      (as Tuner.save does)
  mode "tuner": scheduler := dill.loads(dill.dumps(tuner)).scheduler (the whole tuner, thorough tier)
  mode "state": searcher := fresh_searcher.clone_from_state(pickle round trip of searcher.get_state())"""
import pickle

from dst import harness, views, zoo, probes
from dst.drivers import common
from dst.oracles import V

STATE_KINDS = {"fifo_random", "fifo_grid", "fifo_bo", "hb_stopping", "hb_promotion", "hb_cost_promotion", "hb_rush_stopping",
               "hb_rush_promotion", "hb_pasha", "hb_stopping_bo", "hb_promotion_bo", "sync_hb", "sync_hb_custom", "median"}


def restart(scen, info, mode):
    import dill

    tuner = info["tuner"]
    old = tuner.scheduler
    if mode in ("dill", "tuner"):
        probes.unwrap_scheduler(old)
        if mode == "dill":
            new = dill.loads(dill.dumps(old))
        else:
            new = dill.loads(dill.dumps(tuner)).scheduler
        tuner.scheduler = new
        info["scheduler"] = new
        info["rewrap"](new)
        return
    # state route
    target = old.scheduler if scen["kind"] == "median" and hasattr(old, "scheduler") else old
    # A searcher is complete only once its scheduler has configured it (done lazily by the scheduler at its first
    # call; surrogate models with one likelihood per rung level cannot even report their parameters before): the
    # snapshot is taken from, and restored into, configured searchers.
    if hasattr(target, "_initialize_searcher"):
        target._initialize_searcher()
    searcher = target.searcher
    rng_before = _rng_digest(searcher)
    skip_before = _skip_digest(searcher)
    state = pickle.loads(pickle.dumps(searcher.get_state()))
    fresh, _ = zoo.build_scheduler(scen)
    fresh_target = fresh.scheduler if scen["kind"] == "median" and hasattr(fresh, "scheduler") else fresh
    if hasattr(fresh_target, "_initialize_searcher"):
        fresh_target._initialize_searcher()
    clone = fresh_target.searcher.clone_from_state(state)
    clone.configure_scheduler(target)
    target._searcher = clone
    rng_after = _rng_digest(clone)
    if rng_before is not None and rng_before != rng_after:
        return "the restored searcher's random generator is not in the state of the original's (%s vs %s)" % (rng_after, rng_before)
    skip_after = _skip_digest(clone)
    if skip_before is not None and skip_before != skip_after:
        return "the restored searcher's skip-optimization predicate is not in the state of the original's (%s vs %s)" % (skip_after, skip_before)
    return None


def _skip_digest(searcher):
    """State of the predicate deciding when the surrogate's hyperparameters are refitted (documented part of the state)."""
    st = getattr(searcher, "state_transformer", None)
    pred = getattr(st, "skip_optimization", None) if st is not None else None
    if pred is None:
        return None
    try:
        return "%s%s" % (type(pred).__name__, sorted((k, repr(v)) for k, v in vars(pred).items()))
    except TypeError:
        return type(pred).__name__


def _rng_digest(searcher):
    """Digest of the complete state of the searcher's own generator (key, position and cached Gaussian)."""
    import hashlib

    rs = getattr(searcher, "random_state", None)
    if rs is None or not hasattr(rs, "get_state"):
        return None
    st = rs.get_state(legacy=False)
    return hashlib.sha256(repr((st["bit_generator"], st["state"]["key"].tolist(), st["state"]["pos"], st["has_gauss"],
                                st["gauss"] if st["has_gauss"] else 0.0)).encode()).hexdigest()[:16]


def run(scen, spec, props):
    hA = harness.run_scenario(scen)
    trA = views.Trace(hA)
    res = common.base_result(hA, trA)
    res["viol"] = []
    if res["build_error"]:
        return res
    dA = common.decisions(trA)
    H = sum(1 for c in trA.sched)
    res["H"] = H
    p = spec.get("p")
    if p is None:
        return res
    mode = spec.get("mode", "dill")
    res["sig"] = "%s/%s/%s" % (res["sig"], p, mode)  # one case = (history, restart point, restore route)
    res["nontrivial"] = True
    state = {"n": 0, "done": False, "err": None}

    def do_restart(info):
        if state["done"]:
            return
        state["done"] = True
        try:
            state["rng"] = restart(scen, info, mode)
        except BaseException as e:
            import traceback

            state["err"] = "%s: %s" % (type(e).__name__, str(e)[:200])
            state["where"] = probes._innermost_repo_frame(e)
            state["tb"] = traceback.format_exc()[-800:]

    holder = {}

    def pre_run(sim, scen_, info):
        holder["info"] = info
        if p == 0:
            sim.log("fault", kind="restart", p=p, mode=mode)
            do_restart(info)

    def post(name, rec, ret, ev):
        state["n"] += 1
        if state["n"] == p:
            holder["info"]["tuner"]  # must exist
            from dst import seams

            seams.current_sim().log("fault", kind="restart", p=p, mode=mode)
            do_restart(holder["info"])

    hB = harness.run_scenario(scen, hooks={"pre_run": pre_run, "sched_hooks": {"post": post}})
    trB = views.Trace(hB)
    res["counters"]["fault.F8_restart_%s" % mode] = 1 if state["done"] else 0
    if not state["done"]:
        return res  # boundary beyond the end of this history
    if state["err"] is not None:
        res["viol"].append(V("C16", "R2.restore_raises", trA, "restore (%s) at call boundary %d of %d raised %s" % (mode, p, H, state["err"]),
                             None, mode=mode, where=state.get("where"), searcher=_searcher_kind(scen)))
        return res
    if state.get("rng"):
        res["viol"].append(V("C16", "R3.restored_rng_differs" if "generator" in state["rng"] else "R3.restored_predicate_differs", trA,
                             "restore (%s) at call boundary %d of %d: %s" % (mode, p, H, state["rng"]),
                             None, mode=mode, searcher=_searcher_kind(scen)))
    dB = common.decisions(trB)
    gp_state_route = mode == "state" and scen["kind"] not in zoo.MODEL_FREE
    if gp_state_route:
        # A re-created GP searcher re-fits its surrogate, and fits with a bounded number of optimiser steps are
        # not idempotent: bit-identical model-based suggestions are not demanded on this route (the dill route is
        # exact).  Demanded: the restored data set equals the original one, the trace agrees up to the first
        # model-based suggestion after the restore, and nothing is suggested twice because of the restore.
        gpA = [e.get("gp") for e in trA.events if e["k"] == "s.ret"]
        gpB = [e.get("gp") for e in trB.events if e["k"] == "s.ret"]
        if p < len(gpA) and p < len(gpB) and gpA[p] is not None and gpB[p] is not None:
            a, b = gpA[p], gpB[p]
            same = a["pend"] == b["pend"] and a["failed"] == b["failed"] and a["obs"].keys() == b["obs"].keys() and all(
                a["obs"][t].keys() == b["obs"][t].keys() and all(abs(a["obs"][t][l] - b["obs"][t][l]) <= 1e-9 * max(1, abs(a["obs"][t][l]))
                                                                for l in a["obs"][t]) for t in a["obs"])
            if not same:
                res["viol"].append(V("C16", "R3.restored_data_differs", trA,
                                     "surrogate data after restore at call boundary %d differs from the uninterrupted run" % p, None, mode=mode))
        # random or model-based?  That choice is a function of the restored state alone (number of known
        # configurations vs the configured number of initial random draws), so it must agree with the uninterrupted run
        # for every suggestion up to and including the first model-based one after the restore.
        sA = [e for e in trA.events if e["k"] == "s.ret"]
        sB = [e for e in trB.events if e["k"] == "s.ret"]
        for i in range(p, min(len(sA), len(sB))):
            a, b = sA[i], sB[i]
            if a.get("m") != b.get("m") or a.get("trial") != b.get("trial"):
                break
            if a.get("m") != "suggest":
                if a.get("ret") != b.get("ret"):
                    break
                continue
            pa, pb = a.get("gp_pick"), b.get("gp_pick")
            if pa is None or pb is None:
                break
            if pa != pb:
                res["viol"].append(V("C16", "R1.random_phase_differs", trA,
                                     "after restore (state) at call boundary %d suggestion for trial %s is %s, in the uninterrupted run it is %s" % (
                                         p, a.get("trial"), _phase(pb), _phase(pa)), None, mode=mode, searcher="gp"))
                break
            if pa and not pa[-1]:
                break  # first model-based suggestion: from here on the two runs may legitimately differ
            if (a.get("ret") or {}).get("config") != (b.get("ret") or {}).get("config") or (a.get("ret") is None) != (b.get("ret") is None):
                # not model-based (an initial configuration or a random draw): a function of the restored state alone
                res["viol"].append(V("C16", "R1.random_suggestion_differs", trA,
                                     "after restore (state) at call boundary %d the %s suggestion for trial %s is %s, in the uninterrupted run %s" % (
                                         p, _phase(pa), a.get("trial"), (b.get("ret") or {}).get("config"), (a.get("ret") or {}).get("config")),
                                     None, mode=mode, searcher="gp"))
                break
        seen = {}
        for d in dB:
            if d[0] == "suggest" and d[2]:
                key = repr(sorted((k, repr(v)) for k, v in (d[4] or {}).items() if k not in ("epochs",)))
                if key in seen:
                    res["viol"].append(V("C16", "R1.duplicate_after_restore", trA,
                                         "after restore (state) at call boundary %d trial %s gets the configuration of trial %s again" % (
                                             p, d[1], seen[key]), None, mode=mode, searcher="gp"))
                    break
                seen[key] = d[1]
        return res
    i = common.first_diff(dA, dB)
    if i is not None:
        a = dA[i] if i < len(dA) else None
        b = dB[i] if i < len(dB) else None
        # duplicates / skips caused by the restore
        res["viol"].append(V("C16", "R1.continuation_differs", trA,
                             "after restore (%s) at call boundary %d of %d the continuation differs at scheduler event %d: %s vs %s" % (
                                 mode, p, H, i, a, b), None, mode=mode, what=(a or b)[0], searcher=_searcher_kind(scen)))
    return res


def _phase(picks):
    return "not drawn by the searcher's random/model step" if not picks else ("drawn at random" if picks[-1] else "model-based")


def _searcher_kind(scen):
    k = scen["kind"]
    if k == "fifo_grid":
        return "grid"
    if k in zoo.GP_KINDS:
        return "gp"
    return "random"


def first_diff_tol(a, b, rel=1e-6):
    from dst.simkit import canon

    def eq(x, y):
        if isinstance(x, float) and isinstance(y, float):
            return abs(x - y) <= rel * max(1.0, abs(x), abs(y))
        if isinstance(x, dict) and isinstance(y, dict):
            return x.keys() == y.keys() and all(eq(x[k], y[k]) for k in x)
        if isinstance(x, (list, tuple)) and isinstance(y, (list, tuple)):
            return len(x) == len(y) and all(eq(u, v) for u, v in zip(x, y))
        return x == y

    n = min(len(a), len(b))
    for i in range(n):
        if not eq(canon(a[i]), canon(b[i])):
            return i
    return n if len(a) != len(b) else None


def build_specs(seed, n, tier):
    """Two phases: reference runs give the history length H; then every call boundary is enumerated."""
    from dst import runner, profiles
    from dst.simkit import hint

    nscen = max(4, n)
    plist = profiles.PROFILES["C16"]
    tot = sum(w for w, _ in plist)
    refs = []
    for i in range(nscen):
        x = (i * 7919) % tot
        for w, prof in plist:
            if x < w:
                break
            x -= w
        refs.append({"root": "%s/C16/%s/%d" % (seed, tier, i), "profile": prof, "driver": "c16", "p": None,
                     "timeout": profiles.run_timeout("C16")})
    rs = runner.run_batch(refs, ["C16"], nproc=16, timeout=profiles.run_timeout("C16"), samples=0)
    specs = []
    for ref, r in zip(refs, rs):
        if r is None or r.get("harness_error") or r.get("build_error") or not r.get("H"):
            continue
        H = r["H"]
        kind = r["kind"]
        if H <= 120:
            points = list(range(H))
        else:
            points = list(range(40)) + sorted({40 + hint(H - 40, ref["root"], "pt", j) for j in range(40)})
        modes = ["dill"]
        if kind in STATE_KINDS:
            modes.append("state")
        if tier == "thorough":
            modes.append("tuner")
        for mode in modes:
            for p in points:
                specs.append(dict(ref, p=p, mode=mode))
    return specs
