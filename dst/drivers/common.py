"""Shared pieces of the twin / paired / crash-restart drivers."""
import hashlib
import json

from dst.simkit import canon


def decisions(tr, flip=None):
    """The scheduler-visible trace: every suggestion and every decision, in order."""
    out = []
    for c in tr.sched:
        if c["exc"] is not None:
            out.append(["exc", c["m"], c["trial"], c["exc"]["type"]])
            break
        if c["s1"] is None:
            continue
        if c["m"] == "suggest":
            r = c["ret"]
            if r is None:
                out.append(["suggest", c["trial"], None])
            else:
                cfg = {k: v for k, v in (r["config"] or {}).items() if k != "elapsed_time"} if r["config"] is not None else None
                out.append(["suggest", c["trial"], r["new"], r["ckpt"], cfg])
        elif c["m"] == "on_trial_result":
            out.append(["result", c["trial"], c["result"].get("epoch"), c["ret"]])
    return out


def digest(obj):
    return hashlib.sha256(json.dumps(canon(obj), sort_keys=True).encode()).hexdigest()[:24]


def first_diff(a, b):
    n = min(len(a), len(b))
    for i in range(n):
        if canon(a[i]) != canon(b[i]):
            return i
    return n if len(a) != len(b) else None


def base_result(hist, tr):
    from dst import runner

    return dict(counters=hist.counters, digest=hist.digest, sig=runner.signature(tr), nontrivial=runner.nontrivial(tr),
                nev=len(hist.events), simt=hist.sim_time, exc=hist.final.get("exception"),
                build_error=hist.final.get("build_error"))
