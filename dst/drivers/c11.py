"""C11 -- seeded runs are reproducible: twin executions under perturbation (F9)."""
import random

import numpy as np

from dst import harness, views, zoo
from dst.drivers import common
from dst.oracles import V
from dst.simkit import hint, hfloat


class Foreign:
    """An unrelated scheduler instance created and exercised in the same process."""

    def __init__(self, root, i):
        from syne_tune.backend.trial_status import Trial
        from dst.seams import SimDateTime

        self.Trial, self.now = Trial, SimDateTime.now
        scen = zoo.gen_scenario("%s/foreign/%d" % (root, i), {"kinds": [k for k in zoo.MODEL_FREE if k != "moasha"]})
        self.scen = scen
        self.sched, _ = zoo.build_scheduler(scen)
        self.n = 0
        self.live = {}

    def step(self, u):
        try:
            if not self.live or u < 0.4:
                sg = self.sched.suggest(self.n)
                if sg is None:
                    return
                if sg.spawn_new_trial_id:
                    tr = self.Trial(self.n, sg.config, self.now())
                    self.sched.on_trial_add(tr)
                    self.live[self.n] = [tr, 0]
                    self.n += 1
                else:
                    tid = sg.checkpoint_trial_id
                    self.live[tid] = [self.Trial(tid, sg.config or {}, self.now()), 0]
            else:
                tid = sorted(self.live)[int(u * 997) % len(self.live)]
                tr, lvl = self.live[tid]
                lvl += 1
                self.live[tid][1] = lvl
                res = {"epoch": lvl, "loss": hfloat(u, tid, lvl), "cost": float(lvl)}
                for m in self.scen["metrics"]:
                    res[m] = hfloat(u, m, lvl)
                d = self.sched.on_trial_result(tr, res)
                if d != "CONTINUE" or lvl >= self.scen["scheduler"]["max_t"]:
                    self.sched.on_trial_remove(tr)
                    del self.live[tid]
        except Exception:
            self.live.clear()  # a foreign instance may trip over its own assertions: irrelevant here


def perturbation_hooks(root, with_foreign):
    state = {"n": 0, "foreign": None}

    def pre(name, rec):
        state["n"] += 1
        k = state["n"]
        np.random.seed(hint(2**31 - 1, root, "np", k))
        np.random.rand(3)
        random.seed(hint(2**31 - 1, root, "py", k))
        random.random()
        if with_foreign:
            if state["foreign"] is None:
                state["foreign"] = []
                for i in range(1 + hint(3, root, "nf")):
                    try:
                        state["foreign"].append(Foreign(root, i))
                    except BaseException:
                        pass  # a foreign scenario that cannot be constructed is simply not used
            if state["foreign"]:
                f = state["foreign"][k % len(state["foreign"])]
                f.step(hfloat(root, "fs", k))

    return {"sched_hooks": {"pre": pre}}


def run(scen, spec, props):
    if spec.get("fresh"):
        # fresh-interpreter twin: other hash seed (set by the caller) and other global RNG state.  (No foreign
        # instance is created for model-based schedulers: the property exempts them from independence of other
        # scheduler objects in the same process.)
        scen = dict(scen, global_seed=hint(2**31 - 1, scen["seed"], "fresh-global"))
    hA = harness.run_scenario(scen)
    trA = views.Trace(hA)
    res = common.base_result(hA, trA)
    res["viol"] = []
    if res["build_error"]:
        return res
    dA = common.decisions(trA)
    res["decision_digest"] = common.digest(dA)
    res["rows_digest"] = common.digest([[r.get("trial_id"), r.get("epoch"), r.get("st_decision")] + [r.get(m) for m in scen["metrics"]]
                                        for r in hA.final.get("rows", [])])
    if spec.get("mode") == "digest_only":
        return res
    if spec.get("mode") == "fresh_compare":
        # replay of a fresh-interpreter divergence: run the same scenario in a fresh interpreter under another hash seed
        import json, os, subprocess, sys, tempfile
        from dst import profiles

        hs = profiles.FRESH["C11"]["hashseed"]
        with tempfile.NamedTemporaryFile("w", suffix=".json", delete=False) as f:
            json.dump(scen, f)
            path = f.name
        try:
            env = dict(os.environ, VERIF_HASHSEED=hs, PYTHONHASHSEED=hs)
            chk = os.path.join(os.path.dirname(os.path.dirname(os.path.abspath(__file__))), "check.py")
            cp = subprocess.run([sys.executable, chk, "freshscen", path], capture_output=True, text=True, timeout=600, env=env)
            other = json.loads(cp.stdout.strip().splitlines()[-1])
        finally:
            os.unlink(path)
        mine = [res["decision_digest"], res["rows_digest"]]
        if other != mine:
            res["viol"].append(V("C11", "R2.fresh_process_diverges", trA,
                                 "decisions/result table differ between this process and a fresh interpreter under PYTHONHASHSEED=%s (%s vs %s)" % (
                                     hs, mine, other), None, which="decisions" if other[0] != mine[0] else "rows"))
        return res
    model_free = scen["kind"] in zoo.MODEL_FREE
    if not model_free:
        return res  # GP-based: only fresh-process twins (done by the check, not in-process)
    hB = harness.run_scenario(scen, hooks=perturbation_hooks(scen["seed"], with_foreign=True))
    trB = views.Trace(hB)
    dB = common.decisions(trB)
    i = common.first_diff(dA, dB)
    res["counters"]["fault.F9_perturbed_twin"] = 1
    if i is not None:
        a = dA[i] if i < len(dA) else None
        b = dB[i] if i < len(dB) else None
        res["viol"].append(V("C11", "R1.twin_diverges", trA,
                             "twin with perturbed global RNGs / foreign scheduler instances diverges at scheduler event %d: %s vs %s" % (i, a, b),
                             None, what=(a or b)[0]))
    return res
