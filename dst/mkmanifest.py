"""Regenerate /verif/MANIFEST.json from the table below (keeps it schema-valid)."""
import json, os, sys
VERIF = os.path.dirname(os.path.dirname(os.path.abspath(__file__)))
PY = "/venv/bin/python"
BASE = "cd /repo && /venv/bin/python -m pytest -ra -q -p no:cacheprovider --timeout=900 --continue-on-collection-errors"

CLAIMS = {
  "C01": ("exploration", "5/C01",
          "Seeded search over schedules and fault sequences: the real Tuner loop runs against scripted concurrent workers under a virtual clock; occupancy, id sequence, the per-trial life-cycle automaton and the scheduler-notification grammar are checked over the recorded history of every run.",
          "Trusts the harness's worker ground truth (w.start/w.exit/w.killed events) and the instance-level probes around scheduler/back-end methods; W-MEM status logic mirrors LocalBackend; documented over-budget exception for asynchronously stopping back-ends with start_jobs_without_delay=True is honoured; KF1/KF3 suppressed by exact match.",
          "deterministic simulation: seeded schedule/fault search, history automaton oracle"),
  "C02": ("exploration", "5/C02",
          "Seeded search over batchings of worker output between polls (bursts, latency inside scheduler calls, completion before/with/after the last result, pause/resume in the same iteration): delivered results are matched to ground-truth reports by unique serial and checked for prefix/order/no-duplicate/nothing-after-decision/first-after-resume and against the results log.",
          "Trusts the serial number the scripted job adds to each report and the probes; known findings KF1/KF2 are suppressed by exact match and truncate their runs.",
          "deterministic simulation: seeded schedule search, exactly-once/ordering oracle over recorded history"),
  "C03": ("exploration", "5/C03",
          "Every on_trial_result decision of stopping-type Hyperband (and RUSH stopping) in simulated runs with concurrent, reordered and failing workers is compared with an independent reference model (documented rung levels, numpy.quantile, round-off band).",
          "Trusts numpy.quantile and one state tap (the bracket sampled for each trial, read from the bracket manager after on_trial_add).",
          "deterministic simulation + executable reference model compared step by step"),
  "C04": ("exploration", "5/C04",
          "A non-deterministic acceptor for promotion ASHA / PASHA / cost-aware / RUSH promotion is fed the real event stream of simulated runs: pause exactly at the milestone, never beyond max resource or the PASHA cap, promotions only of eligible unpromoted best trials from the highest eligible rung, next level told, new trial only if nothing is eligible.",
          "Trusts numpy.quantile, the sampled-bracket tap and the PASHA cap tap; metric ties and the round-off band are accepted either way; RUSH promotion thresholds are not judged; dyhpo not covered.",
          "deterministic simulation + non-deterministic acceptor (refinement check) on recorded history"),
  "C05": ("exploration", "5/C05",
          "Acceptor for the documented synchronous bracket policy fed the event stream of simulated runs with several open brackets, arbitrary result order and failing jobs: rung filling, exact top-k promotion with failed-last, levels, decisions, bracket cycling; geometric rung systems re-derived from the documented formula. DEHB: decision legality and suggest-never-raises only.",
          "Trusts the bracket_rungs property for custom systems; ties at the cut are accepted either way; DEHB internals not modelled.",
          "deterministic simulation + acceptor on recorded history"),
  "C06": ("exploration", "5/C06",
          "Invariant on every suggest of every simulated run (histories with pending, failed and observed trials produced by real schedules and faults): keys/constants/type/membership by independent domain code, initial points first by an independent mid-point rule, no repeats for no-repeat searchers, exhaustion only when the (effective) finite space or the documented grid is used up.",
          "The for-all-config-space half is only sampled (spaces are redrawn per run); quantised domains are judged by bounds and type only; log-scaled integer grids are not judged for grid search.",
          "deterministic simulation: invariant checked at every suggest over generated histories"),
  "C10": ("exploration", "5/C10",
          "The real simulator back-end (UserBlackboxBackend/SimulatorBackend/SimulatorCallback) runs generated tables (1-3 seeds, monotone/noisy/non-monotone elapsed time, all five delays incl. 0, sleep time, injected compute latency, failures, checkpointing on/off, with/without max_resource_attr) under every model-free scheduler; every planned and registered result is recomputed from the table: values, one seed per trial, consecutive levels from the resume point, elapsed time since resume, time stamp = start + delays + elapsed, monotone clock, waiting charged exactly once.",
          "Table contents are a deterministic function of the scenario (recomputed by the oracle); the back-end's 'time spent outside' clock is a harness-owned value bumped only by injected latency; one-column tables are not generated (BlackboxTabular lookup fails with this pandas, see DESIGN).",
          "deterministic simulation of the simulator back-end; table/time recomputation oracle"),
  "C11": ("exploration", "5/C11",
          "Twin executions of one seeded scenario: (a) in-process twin with numpy/python global generators reseeded and drawn from before every scheduler call and 1-3 foreign scheduler instances of random kinds constructed and driven in between (model-free schedulers); (b) the same scenarios re-run in a fresh interpreter under another PYTHONHASHSEED and global RNG state (all kinds incl. GP-based, simulator tables with fixed seed); suggestions, decisions and result tables must be identical.",
          "Schedulers without random_seed (MOASHA) and tables with seed=None are excluded as the property says; GP-based schedulers only as fresh-process twins.",
          "deterministic simulation: twin executions under RNG/hash/instance perturbation, digest comparison"),
  "C12": ("exploration", "5/C12",
          "Simulated runs over every StoppingCriterion field and pairs, wait/async/start-without-delay options, failures beyond max_failures, jobs exiting without report, exceptions thrown into the loop: loop ends at the first loop end where the criterion holds, no start after, bounded overshoot, nothing alive afterwards, stop_all called, results stored, counters consistent, only documented exceptions.",
          "'Left running' is judged on W-MEM/W-LOCAL worker ground truth; for exceptions injected between start_trial and the status update the started-counter may lag by that one trial.",
          "deterministic simulation with injected exceptions/failures; termination and post-condition oracle"),
  "C13": ("exploration", "5/C13",
          "Fault sequences (crash before first report / between reports / after resume, external stop, 1-3 per run, max_failures 0-6) against every scheduler: one error notification per observed failure, no exception below the limit, no scheduler call raising or hanging (wall-clock watchdog), failed trial not resumed / config not re-suggested, limit error names a failed trial, bounded progress; plus the C01/C03/C04/C05/C14 oracles after the first failure.",
          "Hang detection uses a 12 s (90 s for GP) real-time watchdog per scheduler call; KF3/KF5 suppressed by exact match.",
          "deterministic simulation with fault injection; containment oracle + reused reference models"),
  "C14": ("exploration", "5/C14",
          "After every scheduler call in simulated runs of stopping/promotion/synchronous Hyperband with GP, HyperTune and DyHPO searchers (all data policies, myopic pending, no-checkpoint re-reports, failures) the surrogate data set (searcher.state_transformer.state) is compared with what was delivered: one observation per level with the mapped value, levels by policy, pending entries only of live trials at unobserved levels, clean-up at every trial end without collateral loss.",
          "Reads the documented attribute state_transformer.state (for DyHPO through the wrapped internal searcher); GP budgets tiny; level-presence rule not applied to synchronous Hyperband and DyHPO.",
          "deterministic simulation: state invariant after every event"),
  "C15": ("exploration", "5/C15",
          "Paired simulated runs with identical seeds and schedules: mode min on table f and mode max on -f (MOASHA: every metric flipped) for all model-free schedulers; suggestions, decisions, promotions, clone sources and the reported best configuration are compared event by event; a first divergence is only excused when some rung threshold (numpy.quantile) lies within round-off of a metric value in the history so far.",
          "The round-off excuse is judged at the first diverging decision only (reporter vs the quantile of its own rung; best unpromoted entry vs its rung's quantile); tables are in general position; stop criteria with metric thresholds are not used in pairs.",
          "deterministic simulation: paired executions, event-by-event comparison"),
  "C16": ("fault_enumeration", "5/C16",
          "Crash-restart of the scheduler/searcher at EVERY call boundary of each sampled history (H <= 120 exhaustively, longer histories: first 40 + 40 sampled): dill round trip of the scheduler (thorough: of the whole tuner), and get_state/clone_from_state for random, grid and GP searchers; the continuation must equal the uninterrupted twin (GP state route: restored data set, generator state and skip-optimization predicate equal, random-or-model phase and every non-model-based suggestion equal up to the first model-based one, no duplicate suggestion, restore does not raise).",
          "For the GP clone_from_state route bit-identical model-based suggestions are not demanded (a re-created searcher re-fits its surrogate and bounded fits are not idempotent); scenarios with the early-checkpoint-removal callback (which keeps its own scheduler reference) are excluded; non-public attribute _searcher is assigned on the state route.",
          "deterministic simulation: enumerated crash-restart points, continuation compared with uninterrupted twin"),
  "C17": ("exploration", "5/C17",
          "For every simulated run (extra string/NaN/int metrics, resumed trials with changed configs, every results_update_interval, injected exceptions) the results table, its CSV read-back, Tuner.best_config, load_experiment().best_config and the running statistics are recomputed from what the back-end handed to the loop.",
          "When run() ended by exception the batch that was being processed counts as in flight (accepted as counted or not).",
          "deterministic simulation: log/read-back/recomputation oracle over recorded history"),
  "C18": ("exploration", "5/C18",
          "Stream behaviour under simulation: scripted jobs emit, through the real Reporter, seeded sequences of reports (nested values, strings with braces/brackets/quotes/unicode/the metric tag, NaN/inf, numpy scalars) interleaved with noise lines (with and without trailing newline) into the trial's output stream (a real std.out file in W-LOCAL) while the loop polls and re-parses the growing stream across pauses, kills and resumes; delivered results, report counter, time stamps, prefix parsing at every poll and reporter-side rejection (reserved key, unserialisable, oversize, None) are checked.",
          "Only the stream half is decided by simulation; the bare parse(serialise(x)) = x over all payloads is input generation and is only sampled by the workload generator; polls inside a single > 8 KiB write (torn line) are not simulated.",
          "deterministic simulation of the report stream; delivery/parse/rejection oracle"),
  "C19": ("exploration", "5/C19",
          "MOASHA decisions in simulated runs (2-4 objectives, per-metric modes, ties, three priorities, brackets 1-3, any report order) are compared with brute-force Pareto-layer rank bounds; on every rung content reached pareto_efficient is compared with the brute-force mask and nondominated_sort with the layer order.",
          "The pure Pareto functions are only sampled on rung contents reached; bracket of each trial is a state tap (MOASHA draws it from the global generator).",
          "deterministic simulation + brute-force reference"),
  "C20": ("exploration", "5/C20",
          "Checkpoint-store model over simulated runs of promotion Hyperband, PASHA, synchronous Hyperband, DEHB and PBT with delete_checkpoints and early removal on/off: every delete justified, paused trials keep their checkpoint unless speculative removal was requested, checkpoint present at every resume and clone.",
          "W-MEM in-memory store; KF4 (PBT clone source deleted) suppressed by exact match.",
          "deterministic simulation: resource-lifetime model checked on recorded history"),
}
NA = [
  ("C07", "pure function of its input (domain membership, encode/decode round trip): no schedule, clock, fault, stream or second party for a simulator to own; exercised only incidentally"),
  ("C08", "pure function of its input (GP posterior algebra vs dense definition): no schedule, clock, fault or interleaving; deterministic simulation adds nothing to input generation"),
  ("C09", "pure function of its input (gradients of fitting criterion / acquisition functions): no schedule, clock, fault or interleaving"),
]
PENDING = {
}

def main():
    checks = []
    for pid, (lvl, ref, text, note, tech) in sorted(CLAIMS.items()):
        checks.append({
            "property_id": pid,
            "quick_cmd": f"{PY} /verif/dst/check.py {pid} --tier quick",
            "thorough_cmd": f"{PY} /verif/dst/check.py {pid} --tier thorough",
            "evidence_file": f"/verif/evidence/{pid}.json",
            "replay_cmd_template": f"{PY} /verif/dst/check.py replay {{path}}",
            "engine": "dst",
            "level_claimed": {"category": lvl, "text": text, "design_ref": "DESIGN.md section " + ref},
            "level_note": note,
            "technique": tech,
        })
    na = [{"property_id": p, "reason": r} for p, r in NA]
    props = [json.loads(l)["id"] for l in open(os.path.join(VERIF, "properties.jsonl"))]
    for p in props:
        if p not in CLAIMS and p not in dict(NA):
            na.append({"property_id": p, "reason": PENDING.get(p, "check not built yet in this round (simulation applies; see DESIGN.md section 5); not claimed until its oracle is validated against the unchanged tree")})
    man = {
        "version": 1,
        "setup_cmd": f"{PY} -m compileall -q /verif/dst && {PY} /verif/dst/check.py --selfcheck",
        "hooks": {"guard": "SYNE_TUNE_VERIF", "enable": "no hooks in /repo: all seams are module attributes of syne_tune rebound by the harness at run time (dst/seams.py); checks import syne_tune from /repo's working tree (editable install)",
                  "baseline_off_cmd": BASE, "source_commits": [], "add_only": True},
        "engines": [{"name": "dst", "path": "/verif/dst", "serves_properties": sorted(CLAIMS),
                     "kind_free_text": "deterministic simulator: virtual clock + event heap, scripted concurrent workers, seeded scenario/fault generator, fork-per-run runner, history oracles and reference models, scenario shrinker, replay files"}],
        "checks": checks,
        "not_applicable": sorted(na, key=lambda d: d["property_id"]),
        "notes": "VERIF_SEED selects the batch of seeds; exit 2 = harness trouble (never a pass). known_findings.json lists genuine defects that are recorded rather than repaired.",
    }
    with open(os.path.join(VERIF, "MANIFEST.json"), "w") as f:
        json.dump(man, f, indent=1)
    print("claimed:", sorted(CLAIMS))

if __name__ == "__main__":
    main()
