"""Regenerate /verif/MANIFEST.json from the table below (keeps it schema-valid)."""
import json, os, sys
VERIF = os.path.dirname(os.path.dirname(os.path.abspath(__file__)))
PY = "/venv/bin/python"
BASE = "cd /repo && /venv/bin/python -m pytest -ra -q -p no:cacheprovider --timeout=900 --continue-on-collection-errors"

CLAIMS = {
  "C01": ("exploration", "5/C01",
          "Seeded search over schedules and fault sequences: the real Tuner loop runs against scripted concurrent workers under a virtual clock; occupancy, id sequence, the per-trial life-cycle automaton and the scheduler-notification grammar are checked over the recorded history of every run.",
          "Trusts the harness's worker ground truth (w.start/w.exit/w.killed events) and the instance-level probes around scheduler/back-end methods; W-MEM status logic mirrors LocalBackend; documented over-budget exception for asynchronously stopping back-ends with start_jobs_without_delay=True is honoured.",
          "deterministic simulation: seeded schedule/fault search, history automaton oracle"),
  "C02": ("exploration", "5/C02",
          "Seeded search over batchings of worker output between polls (bursts, latency inside scheduler calls, completion before/with/after the last result, pause/resume in the same iteration): delivered results are matched to ground-truth reports by unique serial and checked for prefix/order/no-duplicate/nothing-after-decision/first-after-resume and against the results log.",
          "Trusts the serial number the scripted job adds to each report and the probes; known findings KF1/KF2 are suppressed by exact match and truncate their runs.",
          "deterministic simulation: seeded schedule search, exactly-once/ordering oracle over recorded history"),
}
NA = [
  ("C07", "pure function of its input (domain membership, encode/decode round trip): no schedule, clock, fault, stream or second party for a simulator to own; exercised only incidentally"),
  ("C08", "pure function of its input (GP posterior algebra vs dense definition): no schedule, clock, fault or interleaving; deterministic simulation adds nothing to input generation"),
  ("C09", "pure function of its input (gradients of fitting criterion / acquisition functions): no schedule, clock, fault or interleaving"),
]
PENDING = {
}

def main():
    checks = []
    for pid, (lvl, ref, text, note, tech) in sorted(CLAIMS.items()):
        checks.append({
            "property_id": pid,
            "quick_cmd": f"{PY} /verif/dst/check.py {pid} --tier quick",
            "thorough_cmd": f"{PY} /verif/dst/check.py {pid} --tier thorough",
            "evidence_file": f"/verif/evidence/{pid}.json",
            "replay_cmd_template": f"{PY} /verif/dst/check.py replay {{path}}",
            "engine": "dst",
            "level_claimed": {"category": lvl, "text": text, "design_ref": "DESIGN.md section " + ref},
            "level_note": note,
            "technique": tech,
        })
    na = [{"property_id": p, "reason": r} for p, r in NA]
    props = [json.loads(l)["id"] for l in open(os.path.join(VERIF, "properties.jsonl"))]
    for p in props:
        if p not in CLAIMS and p not in dict(NA):
            na.append({"property_id": p, "reason": PENDING.get(p, "check not built yet in this round (simulation applies; see DESIGN.md section 5); not claimed until its oracle is validated against the unchanged tree")})
    man = {
        "version": 1,
        "setup_cmd": f"{PY} -m compileall -q /verif/dst && {PY} /verif/dst/check.py --selfcheck",
        "hooks": {"guard": "SYNE_TUNE_VERIF", "enable": "no hooks in /repo: all seams are module attributes of syne_tune rebound by the harness at run time (dst/seams.py); checks import syne_tune from /repo's working tree (editable install)",
                  "baseline_off_cmd": BASE, "source_commits": [], "add_only": True},
        "engines": [{"name": "dst", "path": "/verif/dst", "serves_properties": sorted(CLAIMS),
                     "kind_free_text": "deterministic simulator: virtual clock + event heap, scripted concurrent workers, seeded scenario/fault generator, fork-per-run runner, history oracles and reference models, scenario shrinker, replay files"}],
        "checks": checks,
        "not_applicable": sorted(na, key=lambda d: d["property_id"]),
        "notes": "VERIF_SEED selects the batch of seeds; exit 2 = harness trouble (never a pass). known_findings.json lists genuine defects that are recorded rather than repaired.",
    }
    with open(os.path.join(VERIF, "MANIFEST.json"), "w") as f:
        json.dump(man, f, indent=1)
    print("claimed:", sorted(CLAIMS))

if __name__ == "__main__":
    main()
