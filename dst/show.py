"""Print the history of a replay file / scenario (debug aid)."""
import json, os, sys
sys.path.insert(0, os.path.dirname(os.path.dirname(os.path.abspath(__file__))))
from dst import boot
boot.reexec_if_needed(); boot.boot()
from dst import harness, views, oracles
from dst.oracles import registry
if sys.argv[1].startswith("root="):
    from dst import zoo, profiles
    root = sys.argv[1][5:]
    prop = root.split("/")[1]
    idx = int(root.split("/")[-1])
    spec = profiles.specs_for(prop, root.split("/")[0], idx + 1, root.split("/")[2])[idx]
    scen = zoo.gen_scenario(spec["root"], spec.get("profile"))
else:
    rp = json.load(open(sys.argv[1]))
    scen = rp.get("scenario", rp)
print(json.dumps({k: v for k, v in scen.items() if k not in ("space",)}, default=str)[:1500])
h = harness.run_scenario(scen)
skip = set(sys.argv[2].split(",")) if len(sys.argv) > 2 else {"cb.loop_start", "sleep", "cb.sleep", "w.ckpt"}
for e in h.events:
    if e["k"] in skip: continue
    d = {k: v for k, v in e.items() if k not in ("s", "t", "k", "config", "values")}
    if "result" in d and isinstance(d["result"], dict): d["result"] = {k: v for k, v in d["result"].items() if k in ("epoch", "sn", "loss")}
    if e["k"] == "cb.fetch": d["results"] = [(t, r.get("epoch"), r.get("sn")) for t, r in d["results"]]
    print("%5d %8.3f %-14s %s" % (e["s"], e["t"], e["k"], json.dumps(d, default=str)[:230]))
tr = views.Trace(h)
for v in oracles.evaluate(tr, list(registry.ORACLES)):
    print("VIOL", v["prop"], v["rule"], v["seq"], v["msg"], v["keys"])
print("final exc", h.final.get("exception"))
