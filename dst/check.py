"""CLI of the deterministic-simulation checks.

  check.py <Cxx> --tier quick|thorough     run the check of one property
  check.py replay <file>                   replay a minimised violation in this (fresh) interpreter
  check.py digests <Cxx> <tier> <seed> i,j,k   (internal) print run digests, for the determinism self-test
  check.py --selfcheck                     imports, seams, schema files

Exit codes: 0 property held on everything explored; 1 violation (reproduced from its replay
file in a fresh interpreter); 2 harness trouble (never a pass, never a VIOLATION)."""
import argparse
import hashlib
import json
import os
import subprocess
import sys
import time
from collections import Counter

VERIF = os.path.dirname(os.path.dirname(os.path.abspath(__file__)))
sys.path.insert(0, VERIF)
from dst import boot  # noqa: E402

REPLAY_DIR = os.path.join(VERIF, "replays")
EVIDENCE_DIR = os.environ.get("VERIF_EVIDENCE_DIR") or os.path.join(VERIF, "evidence")


def _own_new(res, prop, entries):
    from dst import findings

    from dst.oracles import registry

    new, hits, trunc = findings.triage(entries, res.get("viol") or [])
    also = registry.ALSO.get(prop, ())
    return [v for v in new if v["prop"] == prop or (v["prop"] in also and v["keys"].get("after_failure"))], hits, trunc


def cmd_replay(path):
    boot.boot()
    from dst import runner, findings, oracles
    from dst.oracles import registry

    with open(path) as f:
        rp = json.load(f)
    spec = {"scenario": rp["scenario"]}
    if rp.get("driver"):
        spec["driver"] = rp["driver"]
        spec.update(rp.get("driver_args") or {})
    props = list(registry.ORACLES)
    res = runner.run_batch([spec], props, nproc=1, timeout=rp.get("timeout", 300))[0]
    if res is None or res.get("harness_error"):
        print("HARNESS-ERROR replay: %s" % (res or {}).get("harness_error"))
        print((res or {}).get("tb", ""))
        return 2
    entries = findings.load()
    own, hits, _ = _own_new(res, rp["property"], entries)
    same = [v for v in own if v["rule"] == rp["rule"]]
    print("replay digest %s (recorded %s)" % (res.get("digest"), rp.get("digest")))
    if same:
        v = same[0]
        print("  rule %s: %s" % (v["rule"], v["msg"]))
        print("VIOLATION property=%s replay=%s" % (rp["property"], path))
        if rp.get("digest") and res.get("digest") != rp["digest"]:
            print("NOTE: digest differs from the recorded one (different tree or nondeterminism)")
        return 1
    print("violation not reproduced (rule %s); other findings: %s" % (
        rp["rule"], [(v["prop"], v["rule"]) for v in res.get("viol") or []][:6]))
    return 0


def cmd_digests(prop, tier, seed, idxs):
    boot.boot()
    from dst import runner, profiles
    from dst.oracles import registry

    n = max(idxs) + 1
    specs = profiles.specs_for(prop, seed, n, tier)
    sel = [specs[i] for i in idxs]
    res = runner.run_batch(sel, [prop], nproc=min(4, len(sel)), timeout=300, samples=0)
    print(json.dumps({str(i): (r or {}).get("digest") for i, r in zip(idxs, res)}))
    return 0


def cmd_fresh(prop, tier, seed, idxs):
    """(internal) Run the selected specs of a driver-based check in this fresh interpreter; print their digests."""
    boot.boot()
    from dst import runner, profiles

    n = max(idxs) + 1
    specs = profiles.specs_for(prop, seed, n, tier)
    sel = [dict(specs[i], mode="digest_only", fresh=True) for i in idxs]
    res = runner.run_batch(sel, [prop], nproc=16, timeout=profiles.run_timeout(prop), samples=0)
    print(json.dumps({str(i): [(r or {}).get("decision_digest"), (r or {}).get("rows_digest")] for i, r in zip(idxs, res)}))
    return 0


def cmd_freshscen(path):
    boot.boot()
    from dst import runner

    scen = json.load(open(path))
    r = runner.run_batch([{"scenario": scen, "driver": "c11", "mode": "digest_only", "fresh": True, "timeout": 600}], ["C11"], nproc=1,
                         timeout=600, samples=0)[0]
    print(json.dumps([(r or {}).get("decision_digest"), (r or {}).get("rows_digest")]))
    return 0


def fresh_twins(prop, tier, seed, specs, results, entries):
    """Twin executions in a fresh interpreter under another PYTHONHASHSEED: digests must agree."""
    from dst import profiles, zoo
    from dst.oracles import V

    cfg = profiles.FRESH[prop]
    idxs = [i for i, r in enumerate(results) if r is not None and r.get("decision_digest") and not r.get("harness_error")
            and not r.get("build_error")]
    if not idxs:
        return [], 0
    env = dict(os.environ, VERIF_HASHSEED=cfg["hashseed"], PYTHONHASHSEED=cfg["hashseed"])
    import tempfile

    # the index list can be long (thorough tier: every run): passed through a file, not the command line
    with tempfile.NamedTemporaryFile("w", suffix=".idx", delete=False) as f:
        f.write(",".join(map(str, idxs)))
        idx_path = f.name
    try:
        cp = subprocess.run([sys.executable, os.path.abspath(__file__), "fresh", prop, tier, str(seed), "@" + idx_path],
                            capture_output=True, text=True, timeout=5400, env=env)
    finally:
        os.unlink(idx_path)
    try:
        fresh = json.loads(cp.stdout.strip().splitlines()[-1])
    except Exception:
        return [("harness", "fresh interpreter run failed: %s" % cp.stderr[-400:])], 0
    out = []
    for i in idxs:
        a = [results[i].get("decision_digest"), results[i].get("rows_digest")]
        b = fresh.get(str(i))
        if b is None or b[0] is None:
            continue
        if a != b:
            scen = _scenario_of(specs[i])

            class _T:  # minimal stand-in for Trace.keys()
                def keys(self_inner):
                    return {"world": scen["world"], "kind": scen["kind"], "family": scen["kind"]}

            v = V(prop, "R2.fresh_process_diverges", _T(),
                  "run %d (%s): decisions/result table differ between this process and a fresh interpreter under PYTHONHASHSEED=%s "
                  "with different global RNG state (%s vs %s)" % (i, scen["kind"], cfg["hashseed"], a, b), None,
                  which="decisions" if a[0] != b[0] else "rows")
            out.append((i, v))
    return out, len(idxs)


def selfcheck():
    boot.boot()
    from dst import seams, simkit, profiles
    from dst.oracles import registry

    sim = simkit.Sim("selfcheck")
    seams.install(sim)
    seams.assert_installed()
    for f in ("MANIFEST.json", "properties.jsonl", "known_findings.json"):
        assert os.path.exists(os.path.join(VERIF, f)), f
    man = json.load(open(os.path.join(VERIF, "MANIFEST.json")))
    for c in man["checks"]:
        assert c["property_id"] in registry.ORACLES or c["property_id"] in profiles.DRIVERS, c["property_id"]
        assert c["property_id"] in profiles.PROFILES, c["property_id"]
    print("selfcheck ok: %d oracles, %d profiles" % (len(registry.ORACLES), len(profiles.PROFILES)))
    return 0


def write_replay(prop, v, scen, digest, spec=None):
    os.makedirs(REPLAY_DIR, exist_ok=True)
    h = hashlib.sha256(json.dumps(scen, sort_keys=True).encode()).hexdigest()[:10]
    path = os.path.join(REPLAY_DIR, "%s-%s-%s.json" % (prop, v["rule"].replace("/", "_"), h))
    rp = {"property": prop, "rule": v["rule"], "violation": v, "scenario": scen, "digest": digest,
          "repo": boot.repo_revision(), "hashseed": os.environ.get("PYTHONHASHSEED")}
    if spec and spec.get("driver"):
        rp["driver"] = spec["driver"]
        rp["driver_args"] = {k: spec[k] for k in spec if k not in ("root", "profile", "scenario", "driver")}
        rp["timeout"] = spec.get("timeout", 300)
    with open(path, "w") as f:
        json.dump(rp, f, indent=1, sort_keys=True)
    return path


def cmd_check(prop, tier, n_override=None, budget_override=None, nproc=16):
    boot.boot()
    from dst import runner, profiles, findings, shrink as shrinker
    from dst.oracles import registry

    seed = int(os.environ.get("VERIF_SEED", "0"))
    t_start = time.time()
    n, budget = profiles.budget(prop, tier)
    if n_override:
        n = n_override
    if budget_override:
        budget = budget_override
    specs = profiles.specs_for(prop, seed, n, tier)
    props = list(registry.ORACLES)
    entries = findings.load()
    deadline = t_start + budget
    timeout = profiles.run_timeout(prop)
    results = runner.run_batch(specs, props, nproc=nproc, timeout=timeout, samples=3, deadline=deadline)
    done = [r for r in results if r is not None]
    # ---- classify ------------------------------------------------------------
    harness_errors = [r for r in done if r.get("harness_error")]
    timeouts = [r for r in harness_errors if r.get("timeout")]
    build_errors = [r for r in done if r.get("build_error")]
    ok_runs = [r for r in done if not r.get("harness_error") and not r.get("build_error")]
    new_by_group = {}
    known_counts = Counter()
    known_what = {}
    truncated = 0
    other_new = Counter()
    for r in ok_runs:
        own, hits, trunc = _own_new(r, prop, entries)
        truncated += int(trunc)
        for e, v in hits:
            for m in e["manifests"]:
                if m["property"] == prop and v["prop"] == prop:
                    known_counts[e["id"]] += 1
                    known_what[e["id"]] = e["what"]
                    break
        for v in own:
            g = (v["rule"], json.dumps(v["keys"], sort_keys=True))
            new_by_group.setdefault(g, []).append((r, v))
        allnew, _, _ = findings.triage(entries, r.get("viol") or [])
        for v in allnew:
            if v["prop"] != prop:
                other_new[(v["prop"], v["rule"])] += 1
    # ---- fresh-interpreter twins (C11) --------------------------------------------
    fresh_info = None
    if prop in profiles.FRESH:
        fv, ncmp = fresh_twins(prop, tier, seed, specs, results, entries)
        fresh_info = {"compared": ncmp, "diverged": len([x for x in fv if x[0] != "harness"])}
        for i, v in fv:
            if i == "harness":
                harness_errors.append({"harness_error": v})
                continue
            g = (v["rule"], json.dumps(v["keys"], sort_keys=True))
            new_by_group.setdefault(g, []).append((dict(results[i], idx=i), v))
    # ---- minimise + replay every new violation group (bounded) ---------------
    violation_lines = []
    unreproduced = []
    groups = sorted(new_by_group.items(), key=lambda kv: (kv[0][0], -len(kv[1])))
    seen_rules = Counter()
    for (rule, _), items in groups:
        if seen_rules[rule] >= 2 or len(violation_lines) >= 6:
            continue
        seen_rules[rule] += 1
        r, v = items[0]
        spec0 = specs[r["idx"]]
        if v["rule"] == "R2.fresh_process_diverges":
            spec0 = dict(spec0, mode="fresh_compare", timeout=900)
        scen = r.get("scenario") or _scenario_of(spec0)

        def still_fails(scens, rule=rule, spec0=spec0):
            sp = []
            for s in scens:
                d = {"scenario": s}
                if spec0.get("driver"):
                    d.update({k: spec0[k] for k in spec0 if k not in ("root", "profile")})
                sp.append(d)
            rs = runner.run_batch(sp, props, nproc=nproc, timeout=timeout, samples=0)
            out = []
            for x in rs:
                if x is None or x.get("harness_error") or x.get("build_error"):
                    out.append(False)
                    continue
                own2, _, _ = _own_new(x, prop, entries)
                out.append(any(y["rule"] == rule for y in own2))
            return out

        small, steps = shrinker.shrink(scen, still_fails, budget_s=60.0 if tier == "quick" else 120.0)
        d = {"scenario": small}
        if spec0.get("driver"):
            d.update({k: spec0[k] for k in spec0 if k not in ("root", "profile")})
        rr = runner.run_batch([d], props, nproc=1, timeout=timeout, samples=0)[0]
        own2, _, _ = _own_new(rr or {}, prop, entries)
        vv = [y for y in own2 if y["rule"] == rule]
        if not vv:
            small, rr, vv = scen, r, [v]
        path = write_replay(prop, vv[0], small, (rr or {}).get("digest"), spec0)
        cp = subprocess.run([sys.executable, os.path.abspath(__file__), "replay", path], capture_output=True, text=True,
                            timeout=900)
        if cp.returncode == 1 and "VIOLATION property=%s" % prop in cp.stdout:
            violation_lines.append((path, vv[0], len(items), steps))
        else:
            unreproduced.append((path, vv[0], cp.returncode, cp.stdout[-400:]))
    # ---- determinism self-test (part of every check) ---------------------------
    det = determinism_selftest(prop, tier, seed, specs, results, timeout)
    # ---- evidence ---------------------------------------------------------------
    wall = time.time() - t_start
    counters = Counter()
    for r in ok_runs:
        for k, val in (r.get("counters") or {}).items():
            counters[k] += val
    sigs = {r["sig"] for r in ok_runs if r.get("nontrivial") and r.get("sig")}
    samples = [r["sample"] for r in ok_runs if r.get("sample")][:3]
    if not samples and ok_runs:
        samples = [{"root": ok_runs[0]["root"], "kind": ok_runs[0]["kind"]}]
    sim_time = sum(r.get("simt") or 0 for r in ok_runs)
    kinds = Counter(r["kind"] for r in ok_runs)
    worlds = Counter(r["world"] for r in ok_runs)
    ev = {
        "property_id": prop, "tier": tier, "seed": seed, "level": profiles.level(prop),
        "coverage": {
            "evaluations": len(ok_runs),
            "distinct_nontrivial": len(sigs),
            "rule": profiles.RULE_TEXT.get(prop, profiles.RULE_TEXT["default"]),
            "samples": samples,
            "runs_per_hour": round(len(ok_runs) / max(wall, 1e-6) * 3600),
            "simulated_seconds": round(sim_time, 1),
            "events_recorded": sum(r.get("nev") or 0 for r in ok_runs),
            "fault_kinds_fired": {k[6:]: v for k, v in sorted(counters.items()) if k.startswith("fault.")},
            "reach_probes": {k[6:]: v for k, v in sorted(counters.items()) if k.startswith("probe.")},
            "oracle_counters": {k: v for k, v in sorted(counters.items()) if not k.startswith(("fault.", "probe."))},
            "scheduler_kinds": dict(kinds), "worlds": dict(worlds),
            "components": profiles.COMPONENTS,
            "harness_timeouts": len(timeouts), "harness_errors": len(harness_errors) - len(timeouts),
            "scenarios_rejected_at_construction": len(build_errors),
            "runs_truncated_by_known_finding": truncated,
            "known_findings_matched": dict(known_counts),
            "determinism_selftest": det,
            "fresh_interpreter_twins": fresh_info,
            "not_run_deadline": len(results) - len(done),
            "other_properties_new_violations_seen": {"%s/%s" % k: v for k, v in other_new.items()},
        },
        "assumptions": profiles.ASSUMPTIONS.get(prop, []) + profiles.ASSUMPTIONS["default"],
        "wall_s": round(wall, 2),
        "violations": len(violation_lines),
    }
    os.makedirs(EVIDENCE_DIR, exist_ok=True)
    with open(os.path.join(EVIDENCE_DIR, "%s.json" % prop), "w") as f:
        json.dump(ev, f, indent=1, sort_keys=True, default=str)
    # ---- report -------------------------------------------------------------------
    print("%s %s: %d runs (%d nontrivial-distinct), %.0fs, %d known-finding runs, %d harness errors, %d timeouts" % (
        prop, tier, len(ok_runs), len(sigs), wall, truncated, len(harness_errors) - len(timeouts), len(timeouts)))
    for kid, cnt in sorted(known_counts.items()):
        print("KNOWN-FINDING: property=%s %s [%s, %d runs]" % (prop, known_what[kid], kid, cnt))
    for path, v, cnt, steps in violation_lines:
        print("  %s (%d runs; shrunk by %d steps): %s" % (v["rule"], cnt, len(steps), v["msg"]))
        print("VIOLATION property=%s replay=%s" % (prop, path))
    for path, v, rc, tail in unreproduced:
        print("HARNESS-ERROR: violation %s did not reproduce from %s (rc=%s)\n%s" % (v["rule"], path, rc, tail))
    for r in harness_errors[:5]:
        print("HARNESS-ERROR: %s (%s)\n%s" % (r["harness_error"], r.get("root"), r.get("tb", "")[-600:]))
    if violation_lines:
        return 1
    bad_harness = len(harness_errors) - len(timeouts)
    if unreproduced or bad_harness or not det["ok"] or len(timeouts) > max(2, len(done) // 50) or len(ok_runs) < 3:
        if not det["ok"]:
            print("HARNESS-ERROR: determinism self-test failed: %s" % det)
        return 2
    return 0


def _scenario_of(spec):
    from dst import zoo

    if "scenario" in spec:
        return spec["scenario"]
    return zoo.gen_scenario(spec["root"], spec.get("profile"))


def determinism_selftest(prop, tier, seed, specs, results, timeout, k=8):
    """Re-run k finished runs (a) again in this process tree, (b) in a fresh interpreter; digests must agree."""
    from dst import runner

    idxs = [i for i, r in enumerate(results) if r is not None and r.get("digest") and not r.get("harness_error")][:k]
    if not idxs or specs[idxs[0]].get("driver"):
        idxs = [i for i in idxs if not specs[i].get("driver")]
    if not idxs:
        return {"ok": True, "compared": 0, "note": "driver-based check: determinism is part of the oracle"}
    again = runner.run_batch([specs[i] for i in idxs], [prop], nproc=4, timeout=timeout, samples=0)
    mism = []
    for i, r in zip(idxs, again):
        if r is None or r.get("digest") != results[i]["digest"]:
            mism.append(("same-tree", i))
    fresh = {}
    try:
        cp = subprocess.run([sys.executable, os.path.abspath(__file__), "digests", prop, tier, str(seed),
                             ",".join(map(str, idxs))], capture_output=True, text=True, timeout=600)
        fresh = json.loads(cp.stdout.strip().splitlines()[-1])
    except Exception as e:
        return {"ok": False, "error": "fresh interpreter: %s" % e}
    for i in idxs:
        if fresh.get(str(i)) != results[i]["digest"]:
            mism.append(("fresh-interpreter", i))
    return {"ok": not mism, "compared": len(idxs), "mismatches": mism[:5]}


def main():
    boot.reexec_if_needed()
    if len(sys.argv) >= 2 and sys.argv[1] == "replay":
        sys.exit(cmd_replay(sys.argv[2]))
    if len(sys.argv) >= 2 and sys.argv[1] == "freshscen":
        sys.exit(cmd_freshscen(sys.argv[2]))
    if len(sys.argv) >= 2 and sys.argv[1] == "fresh":
        _arg = open(sys.argv[5][1:]).read() if sys.argv[5].startswith("@") else sys.argv[5]
        sys.exit(cmd_fresh(sys.argv[2], sys.argv[3], int(sys.argv[4]), [int(x) for x in _arg.split(",")]))
    if len(sys.argv) >= 2 and sys.argv[1] == "digests":
        sys.exit(cmd_digests(sys.argv[2], sys.argv[3], int(sys.argv[4]), [int(x) for x in sys.argv[5].split(",")]))
    if "--selfcheck" in sys.argv:
        sys.exit(selfcheck())
    ap = argparse.ArgumentParser()
    ap.add_argument("prop")
    ap.add_argument("--tier", default=os.environ.get("VERIF_TIER", "quick"))
    ap.add_argument("--n", type=int, default=None)
    ap.add_argument("--budget", type=float, default=None)
    ap.add_argument("--nproc", type=int, default=16)
    a = ap.parse_args()
    sys.exit(cmd_check(a.prop, a.tier, a.n, a.budget, a.nproc))


if __name__ == "__main__":
    main()
