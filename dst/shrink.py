"""Scenario minimisation: greedy delta-debugging over explicit scenario fields."""
import copy
import time


def _set(d, path, val):
    d = copy.deepcopy(d)
    cur = d
    for k in path[:-1]:
        cur = cur[k]
    if val is _DEL:
        cur.pop(path[-1], None)
    else:
        cur[path[-1]] = val
    return d


_DEL = object()


def candidates(scen):
    """Yield (label, simpler scenario) -- cheapest / most effective first."""
    out = []
    for i in range(len(scen.get("faults", []))):
        s = copy.deepcopy(scen)
        del s["faults"][i]
        out.append(("drop fault %d" % i, s))
    if scen.get("latency"):
        out.append(("no latency", _set(scen, ["latency"], None)))
    if scen.get("callback_raise"):
        out.append(("no injected exception", _set(scen, ["callback_raise"], _DEL)))
    if scen["backend"].get("async_stop"):
        out.append(("sync stop", _set(scen, ["backend", "async_stop"], 0.0)))
    t = scen["tuner"]
    for f, v in t["stop"].items():
        if isinstance(v, int) and v > 1:
            out.append(("%s=%d" % (f, v // 2), _set(scen, ["tuner", "stop", f], v // 2)))
            out.append(("%s=%d" % (f, v - 1), _set(scen, ["tuner", "stop", f], v - 1)))
    if len(t["stop"]) > 1:
        for f in t["stop"]:
            s = copy.deepcopy(scen)
            del s["tuner"]["stop"][f]
            if "max_wallclock_time" in s["tuner"]["stop"] or "max_num_trials_started" in s["tuner"]["stop"]:
                out.append(("drop stop.%s" % f, s))
    if t["n_workers"] > 1:
        out.append(("n_workers-1", _set(scen, ["tuner", "n_workers"], t["n_workers"] - 1)))
    for key, simple in (("wait_trial_completion_when_stopping", False), ("asynchronous_scheduling", True),
                        ("start_jobs_without_delay", True), ("results_update_interval", 1e9), ("save_tuner", False)):
        if t.get(key) != simple:
            out.append(("%s=%s" % (key, simple), _set(scen, ["tuner", key], simple)))
    sc = scen["script"]
    if sc["pace"]["kind"] != "even":
        out.append(("even pace", _set(scen, ["script", "pace", "kind"], "even")))
    for key, simple in (("startup", 0.0), ("exit_delay", 0.0), ("noise", 0), ("extra", None), ("ties", 0),
                        ("checkpointing", True), ("honour_max_resource", True), ("noreport_exit0", False)):
        if sc.get(key) not in (simple, None):
            out.append(("script.%s=%s" % (key, simple), _set(scen, ["script", key], simple)))
    s = scen["scheduler"]
    for key, simple in (("brackets", 1), ("pte", None), ("searcher_data", "rungs"), ("register_pending_myopic", False),
                        ("early_ckpt_removal", None), ("rung_system_per_bracket", False)):
        if key in s and s[key] != simple and not (scen["kind"].startswith("hb_rush") and key == "pte") \
                and not (scen["kind"] == "hb_hypertune" and key == "brackets"):
            out.append(("sched.%s=%s" % (key, simple), _set(scen, ["scheduler", key], simple)))
    if scen["backend"].get("delete_checkpoints"):
        out.append(("keep checkpoints", _set(scen, ["backend", "delete_checkpoints"], False)))
    dims = [i for i, (n, spec) in enumerate(scen["space"]) if spec[0] != "const"]
    if len(dims) > 1:
        for i in dims:
            s2 = copy.deepcopy(scen)
            name = s2["space"][i][0]
            del s2["space"][i]
            s2["space_keys"] = [k for k in s2["space_keys"] if k != name]
            out.append(("drop dim %s" % name, s2))
    return out


def shrink(scen, still_fails, budget_s=90.0, max_rounds=12, batch=16):
    """still_fails(list of scenarios) -> list of bool.  Returns (minimised scenario, steps taken)."""
    t0 = time.time()
    steps = []
    for _ in range(max_rounds):
        cands = candidates(scen)
        if not cands or time.time() - t0 > budget_s:
            break
        progressed = False
        for off in range(0, len(cands), batch):
            chunk = cands[off:off + batch]
            oks = still_fails([c for _, c in chunk])
            for (label, c), ok in zip(chunk, oks):
                if ok:
                    scen = c
                    steps.append(label)
                    progressed = True
                    break
            if progressed or time.time() - t0 > budget_s:
                break
        if not progressed:
            break
    return scen, steps
