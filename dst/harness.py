"""Run one scenario under the simulator and return its history."""
import contextlib
import io
import os
import random
import shutil
import sys
import tempfile

from dst import seams
from dst.simkit import Sim, StepCap, canon, hint
from dst.workers import JobModel


class History:
    def __init__(self, scen, sim, final, info):
        self.scen = scen
        self.events = sim.events
        self.counters = sim.counters
        self.final = final
        self.info = info
        self.digest = sim.digest()
        self.sim_time = sim.now

    def of(self, *kinds):
        ks = set(kinds)
        return [e for e in self.events if e["k"] in ks]


def scratch_root():
    base = "/dev/shm" if os.path.isdir("/dev/shm") and os.access("/dev/shm", os.W_OK) else tempfile.gettempdir()
    return base


def make_backend(scen, sim, job):
    world = scen["world"]
    be = scen["backend"]
    if world == "mem":
        from dst.worlds.mem import MemBackend

        return MemBackend(sim, job, delete_checkpoints=be["delete_checkpoints"], async_stop=be.get("async_stop", 0.0))
    if world == "local":
        from dst.worlds.local import make_local_backend

        return make_local_backend(scen, sim, job)
    if world == "sim":
        from dst.worlds.simw import make_sim_backend

        return make_sim_backend(scen, sim, job)
    raise ValueError(world)


def run_scenario(scen, hooks=None, keep_dir=False):
    """Execute the scenario once.  Must be called in a fresh (forked) process."""
    import numpy as np

    hooks = hooks or {}
    long_run = (scen.get("tuner", {}).get("stop", {}).get("max_num_trials_started") or 0) > 100
    sim = Sim(scen["seed"], max_events=400000, max_log=1200000) if long_run else Sim(scen["seed"])
    seams.install(sim)
    install_pick_tap()
    seams.assert_installed()
    gseed = scen.get("global_seed", hint(2**31 - 1, scen["seed"], "global"))
    np.random.seed(gseed)
    random.seed(gseed)
    scratch = tempfile.mkdtemp(prefix="dst_", dir=scratch_root())
    os.environ["SYNETUNE_FOLDER"] = scratch
    final = {"exception": None}
    info = {}
    devnull = io.StringIO()
    try:
        with contextlib.redirect_stdout(devnull), contextlib.redirect_stderr(devnull):
            _run(scen, sim, final, info, hooks, scratch)
    finally:
        if not keep_dir:
            shutil.rmtree(scratch, ignore_errors=True)
    return History(scen, sim, final, info)


def _run(scen, sim, final, info, hooks, scratch):
    from syne_tune import Tuner
    from syne_tune.results_callback import StoreResultsCallback
    from dst import zoo, probes

    job = JobModel(scen)
    try:
        scheduler, sinfo = zoo.build_scheduler(scen)
    except BaseException as e:
        import traceback; final["build_error"] = "%s: %s" % (type(e).__name__, str(e)[:300]); final["build_tb"] = traceback.format_exc()[-1200:]
        sim.log("build_error", exc=type(e).__name__, msg=str(e)[:300])
        return
    info.update(sinfo)
    info["scheduler"] = scheduler
    final["pte"] = canon(sinfo.get("pte")) if sinfo.get("pte") is not None else None
    bm = getattr(scheduler, "bracket_manager", None)
    if bm is not None and hasattr(bm, "bracket_rungs"):
        final["bracket_rungs"] = [[[int(a), int(b)] for a, b in br] for br in bm.bracket_rungs]
    backend = make_backend(scen, sim, job)
    info["backend"] = backend
    info["job"] = job
    t = scen["tuner"]
    recorder = probes.Recorder(sim, scen)
    world = scen["world"]
    if world == "sim":
        from syne_tune.backend.simulator_backend.simulator_callback import SimulatorCallback

        store = SimulatorCallback()
        apply_latency = lambda d: seams.OUTSIDE.bump(d)
    else:
        store = StoreResultsCallback()
        apply_latency = lambda d: sim.advance(d)
    info["store"] = store
    latency = probes.Latency(sim, scen.get("latency"), apply_latency)
    if world == "local":
        backend.dst_latency = latency
    callbacks = [store, recorder]
    if hooks.get("extra_callbacks"):
        callbacks.extend(hooks["extra_callbacks"](sim, scen, info))
    cr = scen.get("callback_raise")
    if cr and cr["hook"] == "sleep":
        cnt = [0]

        def on_sleep(d):
            cnt[0] += 1
            if cnt[0] == cr["n"]:
                sim.count("fault.F7_injected_exception")
                sim.log("fault", kind="inject_exc", hook="sleep", exc="KeyboardInterrupt")
                raise probes.InjectedKeyboardInterrupt("injected")

        sim.on_sleep = on_sleep
    try:
        tuner = _make_tuner(Tuner, scen, backend, scheduler, callbacks, world)
    except BaseException as e:
        import traceback

        final["build_error"] = "Tuner: %s: %s" % (type(e).__name__, str(e)[:300])
        final["build_tb"] = traceback.format_exc()[-1200:]
        sim.log("build_error", exc=type(e).__name__, msg=str(e)[:300])
        return
    info["tuner"] = tuner
    truth = getattr(backend, "dst_truth", None)
    probes.wrap_backend(sim, backend, latency, truth=truth)
    from dst import zoo as _zoo

    user_hooks = hooks.get("sched_hooks") or {}
    if hasattr(scheduler, "trials_checkpoints_can_be_removed"):
        _orig_tccbr = scheduler.trials_checkpoints_can_be_removed

        def _tccbr():
            ret = _orig_tccbr()
            sim.log("s.ckpt_removable", trials=[int(x) for x in ret if x is not None])
            return ret

        scheduler.trials_checkpoints_can_be_removed = probes.PW(_tccbr)

    def post(name, rec, ret, ev, scheduler=scheduler):
        taps(scheduler, name, rec, ret, ev)
        if user_hooks.get("post"):
            user_hooks["post"](name, rec, ret, ev)

    def rewrap(sched):
        """(Re-)install the probes on a scheduler object (used after a simulated crash-restart, C16)."""
        def post2(name, rec, ret, ev, scheduler=sched):
            taps(scheduler, name, rec, ret, ev)
            if user_hooks.get("post"):
                user_hooks["post"](name, rec, ret, ev)

        probes.wrap_scheduler(sim, sched, latency, hooks={"pre": user_hooks.get("pre"), "post": post2},
                              hang_limit=90.0 if scen["kind"] in _zoo.GP_KINDS else 12.0)

    info["rewrap"] = rewrap
    probes.wrap_scheduler(sim, scheduler, latency, hooks={"pre": user_hooks.get("pre"), "post": post},
                          hang_limit=90.0 if scen["kind"] in _zoo.GP_KINDS else 12.0)
    if hooks.get("pre_run"):
        hooks["pre_run"](sim, scen, info)
    sim.log("run.begin")
    _run_tuner(sim, scen, tuner, final, info, hooks, backend, store)


_PICKS = []


def install_pick_tap():
    """Tap (class level, so it survives pickling and clone_from_state): did the model-based searcher decide to draw
    the next configuration at random (initial phase / no data) or from the surrogate model?"""
    from syne_tune.optimizer.schedulers.searchers.model_based_searcher import BayesianOptimizationSearcher as B

    del _PICKS[:]
    if getattr(B, "_dst_tapped", False):
        return
    orig = B._should_pick_random_config

    def tapped(self, exclusion_candidates):
        r = orig(self, exclusion_candidates)
        _PICKS.append(bool(r))
        return r

    B._should_pick_random_config = tapped
    B._dst_tapped = True


def gp_state(scheduler):
    """Snapshot of the surrogate model's data set (searcher.state_transformer.state, a documented attribute)."""
    searcher = getattr(scheduler, "searcher", None)
    stf = getattr(searcher, "state_transformer", None)
    if stf is None:
        inner = getattr(searcher, "_searcher_int", None) or getattr(searcher, "_searcher", None)
        stf = getattr(inner, "state_transformer", None)
    if stf is None:
        return None
    try:
        state = stf.state
    except Exception:
        return None
    from syne_tune.optimizer.schedulers.searchers.bayesopt.datatypes.common import INTERNAL_METRIC_NAME

    obs = {}
    for ev in state.trials_evaluations:
        mv = ev.metrics.get(INTERNAL_METRIC_NAME)
        if isinstance(mv, dict):
            obs[str(ev.trial_id)] = {str(k): float(v) for k, v in mv.items()}
        elif mv is not None:
            obs[str(ev.trial_id)] = {"-": float(mv)}
    pend = sorted([str(p.trial_id), p.resource] for p in state.pending_evaluations)
    return {"obs": obs, "pend": pend, "failed": sorted(map(str, state.failed_trials))}


def taps(scheduler, name, rec, ret, ev):
    """State taps named in DESIGN (trusted base): sampled bracket, PASHA resource cap."""
    st = gp_state(scheduler)
    if st is not None:
        ev["gp"] = st
        if name == "suggest":
            ev["gp_pick"] = list(_PICKS)
    del _PICKS[:]
    term = getattr(scheduler, "terminator", None)
    if term is None:
        br = getattr(scheduler, "_brackets", None)
        ti = getattr(scheduler, "_trial_info", None)
        if name == "on_trial_add" and br is not None and isinstance(ti, dict) and rec["trial"] in ti:
            # MOASHA: bracket drawn from the global generator
            try:
                ev["bracket"] = [id(b) for b in br].index(id(ti[rec["trial"]]))
            except ValueError:
                pass
        return
    info = getattr(term, "_task_info", None)
    if info is not None:
        if name == "on_trial_add":
            b = info.get(str(rec["trial"]))
            if b is not None:
                ev["bracket"] = int(b)
        elif name == "suggest" and ret is not None and not ret.spawn_new_trial_id:
            b = info.get(str(ret.checkpoint_trial_id))
            if b is not None:
                ev["bracket"] = int(b)
    rs = getattr(term, "_rung_systems", None)
    if rs and hasattr(rs[0], "current_max_t") and name in ("suggest", "on_trial_result"):
        ev["pasha_cap"] = int(rs[0].current_max_t)


def _make_tuner(Tuner, scen, backend, scheduler, callbacks, world):
    from dst import zoo

    t = scen["tuner"]
    return Tuner(
        trial_backend=backend,
        scheduler=scheduler,
        stop_criterion=zoo.build_stop_criterion(scen),
        n_workers=t["n_workers"],
        sleep_time=0.0 if world == "sim" else t["sleep_time"],
        results_update_interval=t["results_update_interval"],
        print_update_interval=1e12,
        max_failures=t["max_failures"],
        tuner_name="dst",
        asynchronous_scheduling=t["asynchronous_scheduling"],
        wait_trial_completion_when_stopping=t["wait_trial_completion_when_stopping"],
        callbacks=callbacks,
        suffix_tuner_name=False,
        save_tuner=t.get("save_tuner", False),
        start_jobs_without_delay=t["start_jobs_without_delay"],
    )


def _run_tuner(sim, scen, tuner, final, info, hooks, backend, store):
    from dst import probes

    try:
        tuner.run()
        sim.log("run.end", exc=None)
    except StepCap:
        raise
    except BaseException as e:
        final["exception"] = {
            "type": type(e).__name__, "msg": probes.clean(e), "where": probes._innermost_repo_frame(e),
            "injected": isinstance(e, probes.Injected),
        }
        sim.log("run.end", exc=type(e).__name__, msg=probes.clean(e), where=final["exception"]["where"],
                injected=isinstance(e, probes.Injected))
    # ---- post-mortem facts (pure reads) ---------------------------------------
    st = tuner.tuning_status
    if st is not None:
        final["status"] = {
            "started": st.num_trials_started, "completed": st.num_trials_completed,
            "failed": st.num_trials_failed, "finished": st.num_trials_finished,
            "running": st.num_trials_running, "last_seen": {int(k): v for k, v in st.last_trial_status_seen.items()},
            "count": st.overall_metric_statistics.count,
        }
        oms = st.overall_metric_statistics
        final["stats_overall"] = {"min": canon(oms.min_metrics), "max": canon(oms.max_metrics),
                                  "sum": canon(oms.sum_metrics), "count": oms.count}
        final["stats_trial"] = {
            int(tid): {"min": canon(ms.min_metrics), "max": canon(ms.max_metrics), "sum": canon(ms.sum_metrics),
                       "count": ms.count}
            for tid, ms in st.trial_metric_statistics.items()
        }
    final["rows"] = [canon(r) for r in store.results]
    final["tuner_path"] = str(tuner.tuner_path)
    final["alive_after"] = backend.alive_trials() if hasattr(backend, "alive_trials") else None
    if scen["world"] == "sim":
        try:
            final["sim_clock"] = backend.time_keeper.time()
        except AssertionError:
            final["sim_clock"] = None
    # results table read back from disk, best configuration as reported by tuner and loaded experiment
    try:
        import pandas as pd
        from syne_tune.constants import ST_RESULTS_DATAFRAME_FILENAME

        p = tuner.tuner_path / ST_RESULTS_DATAFRAME_FILENAME
        if p.exists():
            df = pd.read_csv(p)
            final["csv"] = {"columns": list(df.columns), "rows": [canon(r) for r in df.to_dict("records")]}
        else:
            final["csv"] = None
    except Exception as e:
        final["csv"] = {"error": "%s: %s" % (type(e).__name__, str(e)[:200])}
    if st is not None and st.overall_metric_statistics.count > 0:
        try:
            tid, cfg = tuner.best_config()
            final["best"] = {"trial": int(tid), "config": canon(cfg)}
        except BaseException as e:
            final["best"] = {"error": "%s: %s" % (type(e).__name__, str(e)[:200])}
        if len(scen["metrics"]) > 1:
            # multi-objective: the best configuration can be asked for every metric, by index and by name
            others = []
            for i, name in enumerate(scen["metrics"]):
                for by, arg in (("index", i), ("name", name)):
                    try:
                        tid, cfg = tuner.best_config(metric=arg)
                        others.append({"i": i, "by": by, "trial": int(tid)})
                    except BaseException as e:
                        others.append({"i": i, "by": by, "error": "%s: %s" % (type(e).__name__, str(e)[:200])})
            final["best_by_metric"] = others
        try:
            from syne_tune.experiments import load_experiment

            exp = load_experiment("dst", download_if_not_found=False)
            final["exp_best"] = canon(exp.best_config())
        except BaseException as e:
            final["exp_best"] = {"error": "%s: %s" % (type(e).__name__, str(e)[:200])}
    if hooks.get("post_run"):
        hooks["post_run"](sim, scen, info, final)
