"""Compare a junit xml of the repository's test-suite with /root/.vp/BASELINE.json (stable_pass list)."""
import json, sys
import xml.etree.ElementTree as ET

base = set(json.load(open("/root/.vp/BASELINE.json"))["stable_pass"])
root = ET.parse(sys.argv[1]).getroot()
passed = set()
for tc in root.iter("testcase"):
    if any(ch.tag in ("failure", "error", "skipped") for ch in tc):
        continue
    passed.add("%s::%s" % (tc.get("classname"), tc.get("name")))
missing = sorted(base - passed)
print("baseline stable_pass: %d, passed now: %d, baseline tests not passing now: %d" % (len(base), len(passed), len(missing)))
for m in missing[:20]:
    print("  MISSING", m)
sys.exit(1 if missing else 0)
