"""Simulation kernel: hash-derived randomness, virtual clock, event heap, event log.

One integer (VERIF_SEED) and a run index give a root string; every random
quantity is ``H(root, label, keys...)`` -- a pure function, so removing one
fault or one trial while shrinking does not perturb any other draw."""
import hashlib
import heapq
import json
import math
import struct


def hbytes(*keys):
    h = hashlib.sha256()
    for k in keys:
        h.update(repr(k).encode())
        h.update(b"\x1f")
    return h.digest()


def hfloat(*keys):
    """Uniform float in [0, 1) from the keys."""
    return struct.unpack(">Q", hbytes(*keys)[:8])[0] / 2.0**64


def hint(n, *keys):
    """Uniform int in range(n)."""
    return struct.unpack(">Q", hbytes(*keys)[:8])[0] % n if n > 0 else 0


def hchoice(seq, *keys):
    return seq[hint(len(seq), *keys)]


class HRng:
    """Sequential generator on top of the hash: used only by the scenario generator."""

    def __init__(self, *keys):
        self.keys = keys
        self.n = 0

    def _next(self):
        self.n += 1
        return (self.keys, self.n)

    def random(self):
        return hfloat(*self._next())

    def randint(self, a, b):
        return a + hint(b - a + 1, *self._next())

    def choice(self, seq):
        return seq[hint(len(seq), *self._next())]

    def chance(self, p):
        return self.random() < p

    def uniform(self, a, b):
        return a + (b - a) * self.random()

    def sample(self, seq, k):
        seq = list(seq)
        out = []
        for _ in range(min(k, len(seq))):
            out.append(seq.pop(hint(len(seq), *self._next())))
        return out

    def weighted(self, pairs):
        tot = sum(w for _, w in pairs)
        x = self.random() * tot
        for v, w in pairs:
            x -= w
            if x < 0:
                return v
        return pairs[-1][0]


def canon(x):
    """Canonical JSON-able rendering (floats by repr, NaN as strings)."""
    if isinstance(x, float):
        if math.isnan(x):
            return "NaN"
        if math.isinf(x):
            return "inf" if x > 0 else "-inf"
        return x
    if isinstance(x, (str, int, bool)) or x is None:
        return x
    if isinstance(x, dict):
        return {str(k): canon(v) for k, v in sorted(x.items(), key=lambda kv: str(kv[0]))}
    if isinstance(x, (list, tuple)):
        return [canon(v) for v in x]
    if isinstance(x, (set, frozenset)):
        return sorted((canon(v) for v in x), key=repr)
    try:
        import numpy as np

        if isinstance(x, np.generic):
            return canon(x.item())
        if isinstance(x, np.ndarray):
            return canon(x.tolist())
    except Exception:
        pass
    return repr(x)


class StepCap(Exception):
    """Raised by the simulator when a run exceeds its step budget (harness, not SUT)."""


class Sim:
    """Virtual clock + event heap + totally ordered event log."""

    def __init__(self, root, max_events=60000, max_log=400000):
        self.root = root
        self.now = 0.0
        self.seq = 0
        self._heap = []
        self._hseq = 0
        self.events = []
        self.counters = {}
        self.max_events = max_events
        self.max_log = max_log
        self._fired = 0
        self._draw_n = {}
        self.in_advance = False

    def __reduce__(self):
        # the tuner dill-pickles itself (Tuner.save); the simulator is not part of the system under test
        return (Sim, ("pickled-stub",))

    # -- randomness -------------------------------------------------------
    def draw(self, tag):
        n = self._draw_n.get(tag, 0)
        self._draw_n[tag] = n + 1
        return hfloat(self.root, "draw", tag, n)

    # -- log --------------------------------------------------------------
    def log(self, _k, **kw):
        self.seq += 1
        if len(self.events) >= self.max_log:
            raise StepCap("log cap")
        ev = {"s": self.seq, "t": self.now, "k": _k}
        ev.update(kw)
        self.events.append(ev)
        return ev

    def count(self, name, n=1):
        self.counters[name] = self.counters.get(name, 0) + n

    # -- time -------------------------------------------------------------
    def at(self, t, fn):
        self._hseq += 1
        heapq.heappush(self._heap, (max(t, self.now), self._hseq, fn))

    def after(self, d, fn):
        self.at(self.now + max(0.0, d), fn)

    def advance(self, d):
        """Run every event due in (now, now+d], then set now += d."""
        if self.in_advance:
            # nested advance (an event handler calling sleep): just move the clock
            return
        target = self.now + max(0.0, d)
        self.in_advance = True
        try:
            while self._heap and self._heap[0][0] <= target:
                t, _, fn = heapq.heappop(self._heap)
                if t > self.now:
                    self.now = t
                self._fired += 1
                if self._fired > self.max_events:
                    raise StepCap("event cap")
                fn()
            self.now = target
        finally:
            self.in_advance = False

    def pending(self):
        return len(self._heap)

    def next_time(self):
        return self._heap[0][0] if self._heap else None

    # -- digest -----------------------------------------------------------
    def digest(self, exclude=("path",)):
        h = hashlib.sha256()
        for ev in self.events:
            e = {k: v for k, v in ev.items() if k not in exclude}
            h.update(json.dumps(canon(e), sort_keys=True).encode())
        return h.hexdigest()
