"""Probes: record the history of a run without touching /repo.

* ``Recorder`` is an ordinary TunerCallback.
* ``wrap_scheduler`` / ``wrap_backend`` rebind public methods *on the instance*;
  each call is logged and may let the simulator advance (scheduler latency: the
  real system yields to the workers while a GP is fitted)."""
import copy

from syne_tune.tuner_callback import TunerCallback

from dst.simkit import canon

SCHED_METHODS = ["suggest", "on_trial_add", "on_trial_result", "on_trial_remove", "on_trial_complete", "on_trial_error"]
BACKEND_METHODS = ["start_trial", "resume_trial", "pause_trial", "stop_trial", "stop_all", "copy_checkpoint",
                   "delete_checkpoint", "busy_trial_ids", "fetch_status_results"]


class Injected(Exception):
    """Marker mixin for exceptions thrown into the loop by the harness (F7)."""


class InjectedRuntimeError(RuntimeError, Injected):
    pass


class InjectedKeyboardInterrupt(KeyboardInterrupt, Injected):
    pass


class SchedulerHang(Exception):
    """Raised by the watchdog into a scheduler call that does not return (bounded liveness)."""


def _hang_handler(signum, frame):
    raise SchedulerHang("scheduler call did not return within the wall-clock budget")


def _stub():
    return None


class PW:
    """Callable wrapper that pickles as a stub (keeps Tuner.save cheap and free of harness state)."""

    def __init__(self, fn):
        self.fn = fn

    def __call__(self, *args, **kwargs):
        return self.fn(*args, **kwargs)

    def __reduce__(self):
        return (_stub, ())


class Recorder(TunerCallback):
    def __reduce__(self):
        return (_stub, ())  # Tuner.save dill-pickles the tuner: probes are not part of the system under test

    def __init__(self, sim, scen):
        self.sim = sim
        self.scen = scen
        self.tuner = None
        self.hook_counts = {}
        self.cr = scen.get("callback_raise")

    def _maybe_raise(self, hook):
        if not self.cr or self.cr["hook"] != hook:
            return
        n = self.hook_counts.get(hook, 0) + 1
        self.hook_counts[hook] = n
        if n == self.cr["n"]:
            self.sim.count("fault.F7_injected_exception")
            self.sim.log("fault", kind="inject_exc", hook=hook, exc=self.cr["exc"])
            if self.cr["exc"] == "KeyboardInterrupt":
                raise InjectedKeyboardInterrupt("injected")
            raise InjectedRuntimeError("injected")

    def on_tuning_start(self, tuner):
        self.tuner = tuner
        self.sim.log("cb.tuning_start")

    def on_loop_start(self):
        self.sim.log("cb.loop_start")

    def on_loop_end(self):
        t = self.tuner
        st = t.tuning_status
        try:
            crit = bool(t.stop_criterion(st))
        except Exception as e:  # a user criterion may raise; not ours
            crit = "exc:" + type(e).__name__
        stop = self.scen["tuner"]["stop"]
        names = set(stop.get("max_metric_value") or {}) | set(stop.get("min_metric_value") or {}) | {"st_tuner_time"}
        oms = st.overall_metric_statistics
        self.sim.log(
            "cb.loop_end", crit=crit, nfailed=st.num_trials_failed, started=st.num_trials_started,
            completed=st.num_trials_completed, finished=st.num_trials_finished,
            nevals=oms.count, wall=st.wallclock_time, cost=st.cost,
            maxm={k: oms.max_metrics[k] for k in sorted(names) if k in oms.max_metrics},
            minm={k: oms.min_metrics[k] for k in sorted(names) if k in oms.min_metrics},
        )
        self._maybe_raise("on_loop_end")

    def on_fetch_status_results(self, trial_status_dict, new_results):
        self.sim.log(
            "cb.fetch",
            status={int(k): v[1] for k, v in trial_status_dict.items()},
            results=[[int(tid), canon(res)] for tid, res in new_results],
        )

    def on_trial_result(self, trial, status, result, decision):
        self.sim.log("cb.result", trial=trial.trial_id, status=status, result=canon(result), decision=decision,
                     config=canon(trial.config))
        self._maybe_raise("on_trial_result")

    def on_trial_complete(self, trial, result):
        self.sim.log("cb.complete", trial=trial.trial_id)

    def on_tuning_sleep(self, sleep_time):
        self.sim.log("cb.sleep", d=sleep_time)

    def on_start_trial(self, trial):
        self.sim.log("cb.start", trial=trial.trial_id, config=canon(trial.config))
        self._maybe_raise("on_start_trial")

    def on_resume_trial(self, trial):
        self.sim.log("cb.resume", trial=trial.trial_id, config=canon(trial.config))

    def on_tuning_end(self):
        self.sim.log("cb.tuning_end")


def _trial_id(a):
    return getattr(a, "trial_id", a)


def _suggestion(ret):
    if ret is None:
        return None
    return {"new": bool(ret.spawn_new_trial_id), "ckpt": ret.checkpoint_trial_id,
            "config": canon(ret.config) if ret.config is not None else None,
            "types": {str(k): type(v).__name__ for k, v in ret.config.items()} if ret.config is not None else None}


class Latency:
    """Scheduler-latency / kill-latency / slow-read model (F5, F12)."""

    def __reduce__(self):
        return (_stub, ())

    def __init__(self, sim, spec, apply):
        self.sim = sim
        self.spec = spec
        self.apply = apply  # function(d): lets workers run for d virtual seconds

    def maybe(self, tag, p_key="p"):
        if not self.spec:
            return
        p = self.spec.get(p_key, 0.0)
        if p <= 0:
            return
        if self.sim.draw("lat?" + tag) < p:
            d = self.spec["scale"] * (0.05 + self.sim.draw("lat" + tag))
            self.sim.count("fault.F12_slow_read" if tag == "io" else "fault.F5_latency")
            self.sim.log("latency", tag=tag, d=d)
            self.apply(d)


def wrap_scheduler(sim, scheduler, latency, hooks=None, hang_limit=12.0):
    """Instance-level wrappers around the scheduler's public callbacks."""
    import signal

    signal.signal(signal.SIGALRM, _hang_handler)
    depth = [0]
    hooks = hooks or {}
    originals = {}

    def make(name, orig):
        def wrapper(*args, **kwargs):
            if depth[0] > 0:
                return orig(*args, **kwargs)
            depth[0] += 1
            try:
                rec = {"m": name}
                if name == "suggest":
                    rec["trial"] = kwargs.get("trial_id", args[0] if args else None)
                else:
                    tr = kwargs.get("trial", args[0] if args else None)
                    rec["trial"] = _trial_id(tr)
                    if name in ("on_trial_result", "on_trial_complete"):
                        res = kwargs.get("result", args[1] if len(args) > 1 else None)
                        rec["result"] = canon(res)
                    if name == "on_trial_add":
                        rec["config"] = canon(tr.config)
                pre = hooks.get("pre")
                if pre is not None:
                    pre(name, rec)
                sim.log("s.call", **rec)
                if name in ("suggest", "on_trial_result"):
                    latency.maybe(name)
                try:
                    signal.setitimer(signal.ITIMER_REAL, hang_limit)
                    try:
                        ret = orig(*args, **kwargs)
                    finally:
                        signal.setitimer(signal.ITIMER_REAL, 0)
                except BaseException as e:
                    sim.log("s.exc", m=name, trial=rec["trial"], exc=type(e).__name__, msg=clean(e)[:300],
                            where=_innermost_repo_frame(e))
                    raise
                out = _suggestion(ret) if name == "suggest" else ret
                ev = sim.log("s.ret", m=name, trial=rec["trial"], ret=out)
                post = hooks.get("post")
                if post is not None:
                    post(name, rec, ret, ev)
                return ret
            finally:
                depth[0] -= 1

        return wrapper

    for name in SCHED_METHODS:
        orig = getattr(scheduler, name)
        originals[name] = orig
        setattr(scheduler, name, PW(make(name, orig)))
    return originals


def unwrap_scheduler(scheduler):
    for name in SCHED_METHODS + ["trials_checkpoints_can_be_removed"]:
        if name in scheduler.__dict__:
            del scheduler.__dict__[name]


def clean(msg):
    """Exception texts must not carry the (random) scratch directory into the event log."""
    import os

    root = os.environ.get("SYNETUNE_FOLDER")
    msg = str(msg)
    if root:
        msg = msg.replace(root, "<scratch>")
    return msg[:400]


def _innermost_repo_frame(e):
    import traceback

    tb = traceback.extract_tb(e.__traceback__)
    for fr in reversed(tb):
        if "/syne_tune/" in fr.filename:
            return "%s:%s" % (fr.filename.split("/syne_tune/", 1)[1], fr.name)
    return None


def wrap_backend(sim, backend, latency, truth=None):
    depth = [0]

    def make(name, orig):
        def wrapper(*args, **kwargs):
            if depth[0] > 0:
                return orig(*args, **kwargs)
            depth[0] += 1
            try:
                rec = {"m": name}
                if name == "start_trial":
                    rec["config"] = canon(kwargs.get("config", args[0] if args else None))
                    rec["ckpt"] = kwargs.get("checkpoint_trial_id", args[1] if len(args) > 1 else None)
                elif name == "resume_trial":
                    rec["trial"] = kwargs.get("trial_id", args[0] if args else None)
                    nc = kwargs.get("new_config", args[1] if len(args) > 1 else None)
                    rec["new_config"] = canon(nc) if nc is not None else None
                elif name in ("pause_trial", "stop_trial", "delete_checkpoint"):
                    rec["trial"] = kwargs.get("trial_id", args[0] if args else None)
                elif name == "copy_checkpoint":
                    rec["src"] = kwargs.get("src_trial_id", args[0] if args else None)
                    rec["tgt"] = kwargs.get("tgt_trial_id", args[1] if len(args) > 1 else None)
                elif name == "fetch_status_results":
                    rec["trials"] = sorted(kwargs.get("trial_ids", args[0] if args else []))
                if truth is not None:
                    rec.update(truth(name, rec))
                sim.log("b.call", **rec)
                if name in ("pause_trial", "stop_trial"):
                    latency.maybe("kill", p_key="p_kill")
                try:
                    ret = orig(*args, **kwargs)
                except BaseException as e:
                    sim.log("b.exc", m=name, exc=type(e).__name__, msg=clean(e)[:300], where=_innermost_repo_frame(e),
                            trial=rec.get("trial"))
                    raise
                out = None
                if name in ("start_trial", "resume_trial"):
                    out = ret.trial_id
                elif name == "busy_trial_ids":
                    out = [[int(a), b] for a, b in ret]
                sim.log("b.ret", m=name, ret=out, trial=rec.get("trial"))
                return ret
            finally:
                depth[0] -= 1

        return wrapper

    for name in BACKEND_METHODS:
        orig = getattr(backend, name)
        setattr(backend, name, PW(make(name, orig)))
