"""Seams: every clock and sleep the tuning loop reads is rebound to the simulator.

All seams are module-level names of syne_tune modules that the harness rebinds
from outside; /repo is not modified."""
import time as _real_time
from datetime import datetime as _real_datetime, timedelta

T0 = 1_600_000_000.0  # virtual epoch

_SIM = None  # the simulator of the current (forked) run


def current_sim():
    return _SIM


class SimTimeModule:
    """Stand-in for the ``time`` module inside syne_tune modules."""

    def __init__(self, role="tuner"):
        self.role = role

    def time(self):
        return T0 + _SIM.now

    def perf_counter(self):
        return _SIM.now

    def monotonic(self):
        return _SIM.now

    def sleep(self, d):
        _SIM.log("sleep", d=d, role=self.role)
        hook = getattr(_SIM, "on_sleep", None)
        if hook is not None:
            hook(d)
        _SIM.advance(d)

    def strftime(self, fmt, t=None):
        return _real_time.strftime(fmt, t) if t is not None else _real_time.strftime(fmt, self.gmtime())

    def gmtime(self, secs=None):
        return _real_time.gmtime(self.time() if secs is None else secs)

    def localtime(self, secs=None):
        return _real_time.gmtime(self.time() if secs is None else secs)

    def __getattr__(self, name):  # anything else: the real module
        return getattr(_real_time, name)


class SimDateTime(_real_datetime):
    @classmethod
    def now(cls, tz=None):
        return _real_datetime(2020, 9, 13, 12, 26, 40) + timedelta(seconds=_SIM.now)

    @classmethod
    def utcnow(cls):
        return cls.now()

    @classmethod
    def fromtimestamp(cls, ts, tz=None):
        return _real_datetime(2020, 9, 13, 12, 26, 40) + timedelta(seconds=ts - T0)


def _sim_time():
    return T0 + _SIM.now


def _sim_perf_counter():
    return _SIM.now


class OutsideTimeModule:
    """``time`` for SimulatedTimeKeeper: a stored value that only the harness bumps.

    The simulator back-end adds ``time.time() - last_exit`` ("time spent outside the
    back-end") to its simulated clock; here that quantity is whatever latency the
    harness injected since the last exit -- never wall-clock noise."""

    def __init__(self):
        self.value = 1024.0  # small base: bumps of micro-seconds must not be lost to float rounding

    def time(self):
        return self.value

    def bump(self, d):
        self.value += d

    def __getattr__(self, name):
        return getattr(_real_time, name)


OUTSIDE = OutsideTimeModule()

_PATCHES = []


def install(sim):
    """Bind the seams to ``sim``.  Called once per forked run."""
    global _SIM
    _SIM = sim
    OUTSIDE.value = 1024.0
    import syne_tune.tuner as m_tuner
    import syne_tune.util as m_util
    import syne_tune.tuning_status as m_status
    import syne_tune.results_callback as m_rc
    import syne_tune.report as m_report
    import syne_tune.backend.trial_backend as m_tb
    import syne_tune.backend.local_backend as m_lb
    import syne_tune.backend.trial_status as m_ts
    import syne_tune.backend.time_keeper as m_tk
    import syne_tune.backend.simulator_backend.time_keeper as m_stk
    import syne_tune.callbacks.hyperband_remove_checkpoints_callback as m_hrc
    import syne_tune.optimizer.schedulers.searchers.model_based_searcher as m_mbs
    import syne_tune.optimizer.schedulers.utils.simple_profiler as m_prof

    tm = SimTimeModule("tuner")
    m_tuner.time = tm
    m_util.time = tm
    m_util.datetime = SimDateTime
    m_util.perf_counter = _sim_perf_counter
    m_status.time = tm
    m_rc.perf_counter = _sim_perf_counter
    m_report.time = _sim_time
    m_report.perf_counter = _sim_perf_counter
    m_tb.datetime = SimDateTime
    m_lb.datetime = SimDateTime
    m_ts.datetime = SimDateTime
    m_tk.time = tm
    m_tk.datetime = SimDateTime
    m_stk.time = OUTSIDE
    m_stk.datetime = SimDateTime
    m_hrc.time = tm
    m_mbs.time = tm
    m_prof.time = tm
    _PATCHES[:] = [
        (m_tuner, "time", SimTimeModule),
        (m_util, "time", SimTimeModule),
        (m_status, "time", SimTimeModule),
        (m_tk, "time", SimTimeModule),
        (m_stk, "time", OutsideTimeModule),
    ]


def assert_installed():
    for mod, name, typ in _PATCHES:
        if not isinstance(getattr(mod, name), typ):
            raise RuntimeError(f"seam {mod.__name__}.{name} not installed")
    if not _PATCHES:
        raise RuntimeError("seams not installed")
