"""Apply a seeded change (/verif/seeded/<id>/patch.diff) to /repo, run the listed quick checks, undo it.

usage: seeded_eval.py <id> [--checks C01,C02] [--seeds 0,1] [--n N]
Writes /verif/seeded/<id>/result.json.  /repo is always restored (git checkout -- .)."""
import argparse
import json
import os
import subprocess
import sys
import time

VERIF = os.path.dirname(os.path.dirname(os.path.abspath(__file__)))
REPO = "/repo"


def sh(cmd, **kw):
    return subprocess.run(cmd, shell=True, capture_output=True, text=True, **kw)


def main():
    ap = argparse.ArgumentParser()
    ap.add_argument("id")
    ap.add_argument("--checks", default=None)
    ap.add_argument("--seeds", default="0")
    ap.add_argument("--n", type=int, default=None)
    ap.add_argument("--reverse", action="store_true", help="the diff is a fix commit: apply it in reverse")
    ap.add_argument("--scratch", action="store_true", help="apply the change to a scratch worktree (VERIF_REPO) instead of /repo")
    ap.add_argument("--snapshot", action="store_true", help="run the checks from a scratch worktree of /verif at HEAD (the live tree may be edited meanwhile)")
    a = ap.parse_args()
    d = os.path.join(VERIF, "seeded", a.id)
    meta = json.load(open(os.path.join(d, "meta.json")))
    checks = (a.checks or ",".join(meta.get("checks", [meta["property"]]))).split(",")
    target = REPO
    if a.scratch:
        target = "/tmp/repo_scratch_%s" % a.id
        sh("git -C %s worktree remove --force %s" % (REPO, target))
        r = sh("git -C %s worktree add --detach %s HEAD" % (REPO, target))
        if r.returncode != 0:
            print("cannot create scratch worktree:", r.stderr)
            return 2
    dirty = sh("git -C %s status --porcelain --untracked-files=no" % target).stdout.strip()
    if dirty:
        print("refusing: %s has uncommitted changes:\n" % target + dirty)
        return 2
    patch = os.path.join(d, "patch.diff")
    r = sh("git -C %s apply %s %s" % (target, "-R" if a.reverse else "", patch))
    if r.returncode != 0:
        print("patch does not apply:", r.stderr)
        return 2
    results = {}
    vroot = VERIF
    if a.snapshot:
        vroot = "/tmp/verif_snap_%s" % a.id
        sh("git -C %s worktree remove --force %s" % (VERIF, vroot))
        r = sh("git -C %s worktree add --detach %s HEAD" % (VERIF, vroot))
        if r.returncode != 0:
            print("cannot create /verif snapshot:", r.stderr)
            return 2
    try:
        for c in checks:
            for seed in a.seeds.split(","):
                t0 = time.time()
                cmd = "%s %s/dst/check.py %s --tier quick" % (sys.executable, vroot, c)
                if a.n:
                    cmd += " --n %d" % a.n
                env = dict(os.environ, VERIF_SEED=seed, VERIF_EVIDENCE_DIR="/tmp/seeded_evidence_%s" % a.id)
                os.makedirs(env["VERIF_EVIDENCE_DIR"], exist_ok=True)
                if a.scratch:
                    env["VERIF_REPO"] = target
                cp = sh(cmd, env=env, cwd=vroot)
                lines = [l for l in cp.stdout.splitlines() if l.startswith("VIOLATION") or l.startswith("  R") or l.startswith("  H")]
                results["%s@%s" % (c, seed)] = {"exit": cp.returncode, "wall_s": round(time.time() - t0, 1), "lines": lines[:8]}
                print(c, "seed", seed, "exit", cp.returncode, lines[:4])
    finally:
        sh("rm -rf /tmp/seeded_evidence_%s" % a.id)
        if a.snapshot:
            sh("git -C %s worktree remove --force %s" % (VERIF, vroot))
            sh("git -C %s worktree prune" % VERIF)
        if a.scratch:
            sh("git -C %s worktree remove --force %s" % (REPO, target))
            sh("git -C %s worktree prune" % REPO)
        else:
            sh("git -C %s checkout -- ." % REPO)
    detected = sorted({k.split("@")[0] for k, v in results.items() if v["exit"] == 1})
    out = {"id": a.id, "property": meta["property"], "detected_by": detected, "runs": results,
           "repo_head": sh("git -C %s rev-parse --short HEAD" % REPO).stdout.strip()}
    with open(os.path.join(d, "result.json"), "w") as f:
        json.dump(out, f, indent=1)
    print("detected by:", detected)
    return 0


if __name__ == "__main__":
    sys.exit(main())
