"""Determinism self-test at scale (DESIGN 3.6).

For N seeds per world: run twice in one batch, once more with 4 instead of 16 supervisors, once in a fresh
interpreter, once in a fresh interpreter under PYTHONHASHSEED=1; all event-log digests must agree.
usage: selftest.py [--n 200]"""
import argparse, json, os, subprocess, sys, time

VERIF = os.path.dirname(os.path.dirname(os.path.abspath(__file__)))
sys.path.insert(0, VERIF)
from dst import boot  # noqa


def specs(n):
    from dst import zoo
    out = []
    for world, kinds in (("mem", zoo.MODEL_FREE), ("local", zoo.MODEL_FREE), ("sim", [k for k in zoo.MODEL_FREE if k != "pbt"])):
        for i in range(n):
            out.append({"root": "selftest/%s/%d" % (world, i),
                        "profile": {"world": world, "kinds": kinds, "p_payload": 0.3, "p_rejects": 0.2, "p_callback_raise": 0.1,
                                    "p_async_stop": 0.0 if world != "mem" else 0.15, "fault_kinds": ["crash"] if world == "sim" else ["crash", "extstop"]}})
    return out


def digests(n, nproc):
    from dst import runner
    from dst.oracles import registry
    res = runner.run_batch(specs(n), list(registry.ORACLES), nproc=nproc, timeout=120, samples=0)
    return [(r or {}).get("digest") for r in res]


def main():
    ap = argparse.ArgumentParser()
    ap.add_argument("--n", type=int, default=200)
    ap.add_argument("--child", action="store_true")
    a = ap.parse_args()
    boot.reexec_if_needed()
    boot.boot()
    if a.child:
        print(json.dumps(digests(a.n, 16)))
        return 0
    t0 = time.time()
    d1 = digests(a.n, 16)
    d2 = digests(a.n, 16)
    d3 = digests(a.n, 4)
    out = {"n_per_world": a.n, "worlds": ["mem", "local", "sim"], "runs": len(d1), "none": sum(x is None for x in d1)}
    out["twice_same_batch_mismatch"] = sum(x != y for x, y in zip(d1, d2))
    out["other_worker_count_mismatch"] = sum(x != y for x, y in zip(d1, d3))
    for hs in ("0", "1"):
        env = dict(os.environ, VERIF_HASHSEED=hs, PYTHONHASHSEED=hs)
        cp = subprocess.run([sys.executable, os.path.abspath(__file__), "--n", str(a.n), "--child"], capture_output=True, text=True, env=env)
        d = json.loads(cp.stdout.strip().splitlines()[-1])
        out["fresh_interpreter_hashseed_%s_mismatch" % hs] = sum(x != y for x, y in zip(d1, d))
        if hs == "1":
            out["hashseed_1_mismatch_indices"] = [i for i, (x, y) in enumerate(zip(d1, d)) if x != y][:10]
    out["wall_s"] = round(time.time() - t0, 1)
    print(json.dumps(out, indent=1))
    with open(os.path.join(VERIF, "evidence", "selftest_determinism.json"), "w") as f:
        json.dump(out, f, indent=1)
    bad = out["twice_same_batch_mismatch"] + out["other_worker_count_mismatch"] + out["fresh_interpreter_hashseed_0_mismatch"]
    return 1 if bad else 0


if __name__ == "__main__":
    sys.exit(main())
