"""Parallel batch execution: one forked child per run, hard timeouts, JSON over pipes."""
import hashlib
import json
import os
import select
import signal
import sys
import time
import traceback

from dst.simkit import canon


def signature(tr):
    """Interleaving signature: what the loop saw, in order, with time stripped."""
    h = hashlib.sha256()
    for c in tr.sched:
        h.update(("%s/%s/%s;" % (c["m"], c["trial"], c["ret"] if c["m"] == "on_trial_result" else
                                 (c["ret"] or {}).get("new") if c["m"] == "suggest" else "")).encode())
    for f in tr.fetches:
        h.update(("f%s;" % sorted(f["status"].items())).encode())
    return h.hexdigest()[:20]


def nontrivial(tr):
    """>= 2 trials overlapped in time and >= 1 stop/pause/failure/resume happened."""
    iv = sorted((r["t0"], r["t1"] if r["t1"] is not None else float("inf")) for r in tr.runs.values())
    overlap = any(a[1] > b[0] for a, b in zip(iv, iv[1:]))
    if tr.world == "sim":
        overlap = len({c["trial"] for c in tr.sched if c["m"] == "on_trial_add"}) >= 2
    event = any(c["m"] in ("on_trial_remove", "on_trial_error") for c in tr.sched) or any(
        b["m"] == "resume_trial" for b in tr.backend)
    return bool(overlap and event)


def run_one(spec, props, want_sample=False, extra=None):
    """Executed in the forked child.  spec: {"root":..., "profile":...} or {"scenario":...}."""
    from dst import zoo, harness, views, oracles

    t0 = time.time()
    if "scenario" in spec:
        scen = spec["scenario"]
    else:
        scen = zoo.gen_scenario(spec["root"], spec.get("profile"))
    res = {"root": scen["seed"], "kind": scen["kind"], "world": scen["world"]}
    driver = spec.get("driver")
    if driver:
        import importlib

        mod = importlib.import_module("dst.drivers." + driver)
        res.update(mod.run(scen, spec, props))
        if want_sample:
            res["sample"] = {"scenario": scen, "driver": driver,
                             "driver_args": {k: spec[k] for k in spec if k not in ("root", "profile", "scenario", "driver")}}
        res["wall"] = time.time() - t0
        return res
    hist = harness.run_scenario(scen)
    tr = views.Trace(hist)
    res["build_error"] = hist.final.get("build_error")
    viol = oracles.evaluate(tr, props) if not res["build_error"] else []
    res.update(
        viol=viol, counters=hist.counters, digest=hist.digest, sig=signature(tr), nontrivial=nontrivial(tr),
        nev=len(hist.events), simt=hist.sim_time, exc=hist.final.get("exception"),
        ntrials=len({t for (t, _) in tr.runs}) or len({c["trial"] for c in tr.sched if c["m"] == "on_trial_add"}),
    )
    if want_sample:
        res["sample"] = {"scenario": scen, "first_events": [canon(e) for e in hist.events[:40]]}
    if spec.get("return_scenario"):
        res["scenario"] = scen
    if extra:
        res.update(extra(hist, tr))
    res["wall"] = time.time() - t0
    return res


def _child(spec, props, wfd, want_sample, timeout):
    import faulthandler

    try:
        faulthandler.dump_traceback_later(timeout * 0.9, exit=False, file=sys.__stderr__)
        out = run_one(spec, props, want_sample)
    except BaseException as e:
        out = {"harness_error": "%s: %s" % (type(e).__name__, str(e)[:300]), "tb": traceback.format_exc()[-3000:],
               "root": spec.get("root") or spec.get("scenario", {}).get("seed")}
    try:
        try:
            data = json.dumps(canon(out)).encode()
        except BaseException as e:
            data = json.dumps({"harness_error": "result not serialisable: %s" % e, "root": spec.get("root")}).encode()
        _write_all(wfd, data)
    finally:
        os._exit(0)


def _write_all(fd, data):
    off = 0
    while off < len(data):
        off += os.write(fd, data[off:off + 65536])


def run_batch(specs, props, nproc=16, timeout=30.0, samples=3, on_result=None, deadline=None):
    """Run all specs; returns list of result dicts in spec order (None if not run because of deadline)."""
    results = [None] * len(specs)
    active = {}  # fd -> dict(pid, idx, buf, t0)
    nxt = 0
    n = len(specs)
    while nxt < n or active:
        while nxt < n and len(active) < nproc:
            if deadline is not None and time.time() > deadline:
                nxt = n
                break
            r, w = os.pipe()
            pid = os.fork()
            if pid == 0:
                os.close(r)
                for fd in list(active):
                    try:
                        os.close(fd)
                    except OSError:
                        pass
                _child(specs[nxt], props, w, nxt < samples, specs[nxt].get("timeout", timeout))
            os.close(w)
            active[r] = {"pid": pid, "idx": nxt, "buf": [], "t0": time.time(),
                         "timeout": specs[nxt].get("timeout", timeout)}
            nxt += 1
        if not active:
            break
        rl, _, _ = select.select(list(active), [], [], 0.25)
        now = time.time()
        for fd in rl:
            a = active[fd]
            try:
                b = os.read(fd, 1 << 20)
            except OSError:
                b = b""
            if b:
                a["buf"].append(b)
                continue
            os.close(fd)
            del active[fd]
            try:
                os.waitpid(a["pid"], 0)
            except ChildProcessError:
                pass
            data = b"".join(a["buf"])
            try:
                res = json.loads(data) if data else {"harness_error": "child died without output"}
            except Exception as e:
                res = {"harness_error": "bad child output: %s" % e}
            res["idx"] = a["idx"]
            results[a["idx"]] = res
            if on_result:
                on_result(res)
        for fd, a in list(active.items()):
            if now - a["t0"] > a["timeout"]:
                try:
                    os.kill(a["pid"], signal.SIGKILL)
                except ProcessLookupError:
                    pass
                try:
                    os.waitpid(a["pid"], 0)
                except ChildProcessError:
                    pass
                os.close(fd)
                del active[fd]
                res = {"harness_error": "timeout after %.0fs" % a["timeout"], "timeout": True, "idx": a["idx"],
                       "root": specs[a["idx"]].get("root")}
                results[a["idx"]] = res
                if on_result:
                    on_result(res)
    return results
